/* h_set - runtime monitor for src/set.c (property C19).
 *
 * Links the unmodified src/set.c.  Three parts:
 *   shapes <nkeys>         complete breadth-first exploration of reachable tree shapes
 *   random <cmp> <seed> <universe> <ops>   long random sequences against a sorted-array model
 *   laws                   comparator laws on extreme values
 *
 * After every operation: API result vs. model, structural audit (search-tree
 * order under the comparator, first/next/prev list == in-order walk, count),
 * cleanup bookkeeping (exactly once for removed/replaced/cleared-with-disposal
 * elements, never for one still linked).
 *
 * Output: "VIOL <rule> <detail>" lines and a final "STATS ..." line.
 */
#include "src/common.h"
#include <stdint.h>

/* xmalloc & friends come from common.c in the real program; the harness
 * provides the two symbols set.c needs so that nothing else is linked. */
void *xmalloc(unsigned int size)
{
    void *p = calloc(1, size);
    if (!p)
        abort();
    return p;
}

/* ---- element bookkeeping ------------------------------------------------ */

struct elem {
    union {
        int ikey;
        char *skey;
        void *pkey;
    } k;
    unsigned int id;
    long long mkey; /* model key */
};

#define MAX_IDS (1u << 26)
static unsigned char *cleaned; /* cleanup count per id */
static unsigned char *linked;  /* 1 while the model says the element is in the set */
static unsigned int next_id = 1;
static unsigned long n_viol;
static unsigned long n_ops, n_audits, n_cleanups, n_replacements, n_absent_probes;
static int in_set_call;
static struct set *probe_set;   /* during set_clear / set_remove with disposal: the set, so that a cleanup can look into it */

static void viol(const char *rule, const char *fmt, ...)
{
    va_list ap;
    n_viol++;
    if (n_viol > 20)
        return;
    printf("VIOL %s ", rule);
    va_start(ap, fmt);
    vprintf(fmt, ap);
    va_end(ap);
    printf("\n");
}

static void elem_cleanup(void *p)
{
    struct elem *e = p;
    n_cleanups++;
    if (e->id == 0 || e->id >= MAX_IDS) {
        viol("cleanup-garbage", "cleanup called on something that is not a live element");
        return;
    }
    if (linked[e->id])
        viol("cleanup-linked", "cleanup ran on element id=%u key=%lld that the model still holds", e->id, e->mkey);
    if (cleaned[e->id] < 255)
        cleaned[e->id]++;
    if (cleaned[e->id] > 1)
        viol("cleanup-twice", "cleanup ran %d times on element id=%u", cleaned[e->id], e->id);
    /* "never on an element still in the set": what a cleanup sees when it looks the element up in its own set */
    if (probe_set && set_find(probe_set, p) == p)
        viol("cleanup-in-set", "cleanup of element id=%u key=%lld ran while set_find() still returns that element", e->id, e->mkey);
    if (!in_set_call)
        viol("cleanup-outside", "cleanup outside a set call");
}

static struct set_node *elem_new(long long mkey)
{
    struct set_node *n = set_node_alloc(sizeof(struct elem));
    struct elem *e = set_node_data(n);
    e->id = next_id++;
    if (e->id >= MAX_IDS) {
        fprintf(stderr, "id space exhausted\n");
        exit(3);
    }
    e->mkey = mkey;
    return n;
}

/* ---- the model: sorted array of elements -------------------------------- */

struct model {
    struct elem **v;
    unsigned int n, cap;
};

static int model_pos(struct model *m, long long key, int *found)
{
    unsigned int lo = 0, hi = m->n;
    while (lo < hi) {
        unsigned int mid = (lo + hi) / 2;
        if (m->v[mid]->mkey < key)
            lo = mid + 1;
        else
            hi = mid;
    }
    *found = (lo < m->n && m->v[lo]->mkey == key);
    return lo;
}

static void model_insert_at(struct model *m, unsigned int pos, struct elem *e)
{
    if (m->n == m->cap) {
        m->cap = m->cap ? m->cap * 2 : 16;
        m->v = realloc(m->v, m->cap * sizeof(m->v[0]));
    }
    memmove(m->v + pos + 1, m->v + pos, (m->n - pos) * sizeof(m->v[0]));
    m->v[pos] = e;
    m->n++;
}

static void model_remove_at(struct model *m, unsigned int pos)
{
    memmove(m->v + pos, m->v + pos + 1, (m->n - pos - 1) * sizeof(m->v[0]));
    m->n--;
}

/* ---- structural audit ---------------------------------------------------- */

static struct elem **walk_buf;
static unsigned int walk_n, walk_cap;

static int walk(struct set *s, struct set_node *n, unsigned int depth, unsigned int limit)
{
    if (!n)
        return 0;
    if (depth > limit || walk_n > limit)
        return -1;
    if (walk(s, n->l, depth + 1, limit))
        return -1;
    if (walk_n == walk_cap) {
        walk_cap = walk_cap ? walk_cap * 2 : 64;
        walk_buf = realloc(walk_buf, walk_cap * sizeof(walk_buf[0]));
    }
    walk_buf[walk_n++] = set_node_data(n);
    return walk(s, n->r, depth + 1, limit);
}

static void audit(struct set *s, struct model *m, const char *ctx)
{
    struct set_node *n, *prev;
    unsigned int ii;

    n_audits++;
    if (set_size(s) != m->n)
        viol("size", "%s: set_size=%u model=%u", ctx, set_size(s), m->n);
    walk_n = 0;
    if (walk(s, s->root, 0, m->n + 8)) {
        viol("tree-shape", "%s: tree has more nodes than the model / a cycle", ctx);
        return;
    }
    if (walk_n != m->n)
        viol("tree-count", "%s: in-order walk has %u nodes, model %u", ctx, walk_n, m->n);
    for (ii = 0; ii < walk_n && ii < m->n; ++ii) {
        if (walk_buf[ii] != m->v[ii]) {
            viol("tree-order", "%s: in-order position %u holds id=%u key=%lld, model id=%u key=%lld",
                 ctx, ii, walk_buf[ii]->id, walk_buf[ii]->mkey, m->v[ii]->id, m->v[ii]->mkey);
            break;
        }
    }
    /* search-tree order under the set's own comparator */
    for (ii = 1; ii < walk_n; ++ii) {
        if (!(s->compare(walk_buf[ii - 1], walk_buf[ii]) < 0)) {
            viol("tree-compare", "%s: comparator does not order in-order neighbours %u,%u", ctx, ii - 1, ii);
            break;
        }
    }
    /* list threading */
    prev = NULL;
    for (n = set_first(s), ii = 0; n && ii <= m->n; prev = n, n = set_next(n), ++ii) {
        if (set_prev(n) != prev) {
            viol("list-prev", "%s: prev link wrong at list position %u", ctx, ii);
            break;
        }
        if (ii < m->n && set_node_data(n) != (void *)m->v[ii]) {
            viol("list-order", "%s: list position %u differs from model", ctx, ii);
            break;
        }
    }
    if (ii != m->n || n != NULL)
        viol("list-length", "%s: list has %s%u elements, model %u", ctx, n ? ">" : "", ii, m->n);
    for (ii = 0; ii < m->n; ++ii) {
        if (cleaned[m->v[ii]->id])
            viol("cleanup-linked", "%s: element id=%u in the set was cleaned up", ctx, m->v[ii]->id);
    }
}

/* ---- generic operations (set + model in lock step) ----------------------- */

struct universe {
    set_compare_f *cmp;
    /* fill the comparator-visible key of e from model key */
    void (*setkey)(struct elem *e, long long mkey, unsigned int variant);
    /* build a probe datum for a model key (for find/lower/remove) */
    const void *(*probe)(long long mkey, unsigned int variant);
    const char *name;
};

static void do_insert(struct set *s, struct model *m, struct universe *u, long long key, unsigned int variant, const char *ctx)
{
    struct set_node *n = elem_new(key);
    struct elem *e = set_node_data(n), *old = NULL;
    int found;
    unsigned int pos, old_id = 0;

    u->setkey(e, key, variant);
    pos = model_pos(m, key, &found);
    if (found) {
        old = m->v[pos];
        old_id = old->id;
        linked[old->id] = 0;
        m->v[pos] = e;
        n_replacements++;
    } else {
        model_insert_at(m, pos, e);
    }
    linked[e->id] = 1;
    in_set_call = 1;
    set_insert(s, n);
    in_set_call = 0;
    n_ops++;
    if (found && cleaned[old_id] != 1)
        viol("cleanup-replace", "%s: replaced element id=%u cleaned %d times (want 1)", ctx, old_id, cleaned[old_id]);
}

/* Nodes taken out without disposal belong to the caller again, who may put them back - into this set or another one, also when
 * it is empty at that moment (src/config.c moves nodes between trees that way).  They come back with whatever links they had. */
#define POOL_MAX 64
static struct set_node *pool[POOL_MAX];
static unsigned int pool_n;
static unsigned long n_reinserted, n_reinserted_into_empty;
static int keep_removed;

static void do_reinsert(struct set *s, struct model *m, struct universe *u, const char *ctx)
{
    struct set_node *n;
    struct elem *e, *old = NULL;
    int found;
    unsigned int pos, old_id = 0;

    if (!pool_n)
        return;
    n = pool[--pool_n];
    e = set_node_data(n);
    pos = model_pos(m, e->mkey, &found);
    if (found) {
        old = m->v[pos];
        old_id = old->id;
        linked[old->id] = 0;
        m->v[pos] = e;
        n_replacements++;
    } else {
        model_insert_at(m, pos, e);
    }
    linked[e->id] = 1;
    n_reinserted++;
    if (set_size(s) == 0)
        n_reinserted_into_empty++;
    in_set_call = 1;
    set_insert(s, n);
    in_set_call = 0;
    n_ops++;
    if (found && cleaned[old_id] != 1)
        viol("cleanup-replace", "%s: element id=%u replaced by a re-inserted node was cleaned %d times (want 1)", ctx, old_id, cleaned[old_id]);
    (void)u;
}

static void do_remove(struct set *s, struct model *m, struct universe *u, long long key, unsigned int variant, int no_dispose, const char *ctx)
{
    int found, res;
    unsigned int pos, id = 0;
    struct elem *e = NULL;

    pos = model_pos(m, key, &found);
    if (found) {
        e = m->v[pos];
        id = e->id;
        linked[id] = 0;
        model_remove_at(m, pos);
    } else
        n_absent_probes++;
    in_set_call = 1;
    probe_set = no_dispose ? NULL : s;
    res = set_remove(s, (void *)u->probe(key, variant), no_dispose);
    probe_set = NULL;
    in_set_call = 0;
    n_ops++;
    if (!!res != !!found)
        viol("remove-result", "%s: set_remove(key=%lld) returned %d, model has it: %d", ctx, key, res, found);
    if (found) {
        int want = no_dispose ? 0 : 1;
        if (cleaned[id] != want)
            viol("cleanup-remove", "%s: removed element id=%u cleaned %d times (want %d)", ctx, id, cleaned[id], want);
        if (no_dispose && res && keep_removed && pool_n < POOL_MAX) {
            /* caller owns the node now and will put it back later, as it is */
            pool[pool_n++] = set_node(e);
        } else if (no_dispose && res) {
            /* caller owns the node now */
            struct set_node *n = set_node(e);
            cleaned[id] = 1; /* retire id */
            if (u->cmp == set_compare_charp)
                free(e->k.skey);
            free(n);
        }
    }
}

static void do_find(struct set *s, struct model *m, struct universe *u, long long key, unsigned int variant, const char *ctx)
{
    int found;
    unsigned int pos = model_pos(m, key, &found);
    struct elem *got;

    if (!found)
        n_absent_probes++;
    in_set_call = 1;
    got = set_find(s, u->probe(key, variant));
    in_set_call = 0;
    n_ops++;
    if (found ? (got != m->v[pos]) : (got != NULL))
        viol("find-result", "%s: set_find(key=%lld) returned %s id=%u, model %s", ctx, key,
             got ? "element" : "NULL", got ? got->id : 0, found ? "has it" : "does not have it");
}

static void do_lower(struct set *s, struct model *m, struct universe *u, long long key, unsigned int variant, const char *ctx)
{
    int found;
    unsigned int pos = model_pos(m, key, &found);
    struct set_node *got;
    struct elem *want = pos < m->n ? m->v[pos] : NULL;

    if (!found)
        n_absent_probes++;
    in_set_call = 1;
    got = set_lower(s, u->probe(key, variant));
    in_set_call = 0;
    n_ops++;
    if ((got ? set_node_data(got) : NULL) != (void *)want)
        viol("lower-result", "%s: set_lower(key=%lld) returned %s key=%lld, model wants %s key=%lld", ctx, key,
             got ? "element" : "NULL", got ? ((struct elem *)set_node_data(got))->mkey : 0,
             want ? "element" : "NULL", want ? want->mkey : 0);
}

static void do_clear(struct set *s, struct model *m, struct universe *u, int no_dispose, const char *ctx)
{
    unsigned int ii, n = m->n;
    struct elem **old = malloc((n + 1) * sizeof(old[0]));

    memcpy(old, m->v, n * sizeof(old[0]));
    for (ii = 0; ii < n; ++ii)
        linked[old[ii]->id] = 0;
    m->n = 0;
    /* remember ids before the nodes are freed */
    {
        unsigned int *ids = malloc((n + 1) * sizeof(ids[0]));
        for (ii = 0; ii < n; ++ii)
            ids[ii] = old[ii]->id;
        in_set_call = 1;
        probe_set = no_dispose ? NULL : s;
        set_clear(s, no_dispose);
        probe_set = NULL;
        in_set_call = 0;
        n_ops++;
        for (ii = 0; ii < n; ++ii) {
            int want = no_dispose ? 0 : 1;
            if (cleaned[ids[ii]] != want)
                viol("cleanup-clear", "%s: cleared element id=%u cleaned %d times (want %d)", ctx, ids[ii], cleaned[ids[ii]], want);
            if (no_dispose && keep_removed && pool_n < POOL_MAX) {
                pool[pool_n++] = set_node(old[ii]);
            } else if (no_dispose) {
                cleaned[ids[ii]] = 1;
                if (u->cmp == set_compare_charp)
                    free(old[ii]->k.skey);
                free(set_node(old[ii]));
            }
        }
        free(ids);
    }
    free(old);
    if (set_size(s) != 0 || s->root != NULL || set_first(s) != NULL)
        viol("clear-result", "%s: set not empty after set_clear", ctx);
}

/* ---- universes ------------------------------------------------------------ */

static int probe_int;
static void int_setkey(struct elem *e, long long k, unsigned int v) { e->k.ikey = (int)k; (void)v; }
static const void *int_probe(long long k, unsigned int v) { probe_int = (int)k; (void)v; return &probe_int; }

static void *probe_ptr;
static void voidp_setkey(struct elem *e, long long k, unsigned int v) { e->k.pkey = (void *)(uintptr_t)k; (void)v; }
static const void *voidp_probe(long long k, unsigned int v) { probe_ptr = (void *)(uintptr_t)k; (void)v; return &probe_ptr; }

/* strings: model key k -> name "Key%06lld" with a case pattern chosen by variant
 * (all variants of one k are equal under the case-insensitive comparator) */
static char probe_strbuf[64];
static char *probe_str;
static void str_render(char *out, long long k, unsigned int variant)
{
    unsigned int ii;
    /* keys come in fours that differ only in their last character - '[' '\\' '{' '|':
     * punctuation is not letter case - the comparator is strcasecmp's order, in which the two are different keys, '[' first */
    if (k >= 0) {
        static const char last[] = "[\\{|";      /* in strcasecmp's order: 0x5b < 0x5c < 0x7b < 0x7c */
        sprintf(out, "key%06lld%c", k - (k % 4), last[k % 4]);
    } else
        sprintf(out, "key%06lldx", k);
    for (ii = 0; out[ii]; ++ii)
        if ((variant >> (ii % 8)) & 1)
            out[ii] = toupper((unsigned char)out[ii]);
}
static void str_setkey(struct elem *e, long long k, unsigned int v)
{
    char buf[64];
    str_render(buf, k, v);
    e->k.skey = strdup(buf);
}
static const void *str_probe(long long k, unsigned int v)
{
    str_render(probe_strbuf, k, v);
    probe_str = probe_strbuf;
    return &probe_str;
}
/* the string cleanup must free the key; wrap */
static void str_elem_cleanup(void *p)
{
    struct elem *e = p;
    elem_cleanup(p);
    free(e->k.skey);
    e->k.skey = NULL;
}

static struct universe U_int = { set_compare_int, int_setkey, int_probe, "int" };
static struct universe U_voidp = { set_compare_voidp, voidp_setkey, voidp_probe, "voidp" };
static struct universe U_str = { set_compare_charp, str_setkey, str_probe, "charp" };

/* ---- part 1: complete shape exploration ------------------------------------ */

#define MAXK 8
struct shape {
    /* preorder serialisation: key (0..n-1) or -1 for null */
    signed char pre[2 * MAXK + 2];
    unsigned char len;
    int parent;
    char op[24];
};

static struct shape *shapes;
static unsigned int n_shapes, cap_shapes;

static void ser(struct set_node *n, struct shape *sh)
{
    if (!n) {
        sh->pre[sh->len++] = -1;
        return;
    }
    sh->pre[sh->len++] = (signed char)(((struct elem *)set_node_data(n))->mkey);
    ser(n->l, sh);
    ser(n->r, sh);
}

static struct set_node *deser(const struct shape *sh, unsigned int *pos, struct model *m)
{
    struct set_node *n;
    struct elem *e;
    int key = sh->pre[(*pos)++];
    if (key < 0)
        return NULL;
    n = elem_new(key);
    e = set_node_data(n);
    e->k.ikey = key;
    linked[e->id] = 1;
    n->l = deser(sh, pos, m);
    /* in-order position: after the left subtree */
    {
        int found;
        unsigned int p = model_pos(m, key, &found);
        model_insert_at(m, p, e);
    }
    n->r = deser(sh, pos, m);
    return n;
}

static void build_state(const struct shape *sh, struct set *s, struct model *m)
{
    unsigned int pos = 0, ii;
    memset(s, 0, sizeof(*s));
    s->compare = set_compare_int;
    s->cleanup = elem_cleanup;
    m->n = 0;
    s->root = deser(sh, &pos, m);
    s->count = m->n;
    for (ii = 0; ii < m->n; ++ii) {
        struct set_node *n = set_node(m->v[ii]);
        n->prev = ii ? set_node(m->v[ii - 1]) : NULL;
        n->next = (ii + 1 < m->n) ? set_node(m->v[ii + 1]) : NULL;
    }
}

static void drop_state(struct set *s, struct model *m)
{
    unsigned int ii;
    for (ii = 0; ii < m->n; ++ii) {
        linked[m->v[ii]->id] = 0;
        cleaned[m->v[ii]->id] = 1;
        free(set_node(m->v[ii]));
    }
    m->n = 0;
    s->root = NULL;
    s->count = 0;
}

/* open-addressing hash of shapes */
static unsigned int *htab;
static unsigned int hcap;

static unsigned int shape_hash(const struct shape *sh)
{
    unsigned int hsh = 2166136261u, ii;
    for (ii = 0; ii < sh->len; ++ii)
        hsh = (hsh ^ (unsigned char)sh->pre[ii]) * 16777619u;
    return hsh;
}

static int shape_intern(const struct shape *sh, int parent, const char *op)
{
    unsigned int hsh = shape_hash(sh) & (hcap - 1);
    while (htab[hsh]) {
        struct shape *o = &shapes[htab[hsh] - 1];
        if (o->len == sh->len && !memcmp(o->pre, sh->pre, sh->len))
            return 0;
        hsh = (hsh + 1) & (hcap - 1);
    }
    if (n_shapes == cap_shapes) {
        cap_shapes *= 2;
        shapes = realloc(shapes, cap_shapes * sizeof(shapes[0]));
    }
    shapes[n_shapes] = *sh;
    shapes[n_shapes].parent = parent;
    snprintf(shapes[n_shapes].op, sizeof(shapes[n_shapes].op), "%s", op);
    htab[hsh] = ++n_shapes;
    return 1;
}

static void print_path(int idx)
{
    if (idx < 0)
        return;
    print_path(shapes[idx].parent);
    if (shapes[idx].op[0])
        printf(" %s", shapes[idx].op);
}

static unsigned long n_transitions;

static void explore(int nkeys)
{
    struct shape empty, sh;
    struct set s;
    struct model m;
    unsigned int cur;
    unsigned long viol_before;

    memset(&m, 0, sizeof(m));
    cap_shapes = 4096;
    shapes = malloc(cap_shapes * sizeof(shapes[0]));
    hcap = 1u << 16;
    htab = calloc(hcap, sizeof(htab[0]));
    n_shapes = 0;
    memset(&empty, 0, sizeof(empty));
    empty.pre[0] = -1;
    empty.len = 1;
    shape_intern(&empty, -1, "");

    for (cur = 0; cur < n_shapes; ++cur) {
        /* operations: for each key k in 0..nkeys-1 (model keys 2k+1 are odd => present-able keys are 2k;
         * probes at odd positions -1,1,3,.. are always absent) */
        int op, k;
        for (op = 0; op < 8; ++op) {
            int kmax = (op == 6 || op == 7) ? 1 : ((op == 0) ? nkeys : (2 * nkeys + 1));
            for (k = 0; k < kmax; ++k) {
                char opname[24], ctx[64];
                long long key;
                struct shape base = shapes[cur];

                build_state(&base, &s, &m);
                viol_before = n_viol;
                /* keys in the set are even numbers 0,2,..; odd numbers and -1 probe the gaps */
                key = (op == 0) ? 2 * k : (k - 1);
                switch (op) {
                case 0: snprintf(opname, sizeof(opname), "ins(%lld)", key); break;
                case 1: snprintf(opname, sizeof(opname), "rem(%lld)", key); break;
                case 2: snprintf(opname, sizeof(opname), "remnd(%lld)", key); break;
                case 3: snprintf(opname, sizeof(opname), "find(%lld)", key); break;
                case 4: snprintf(opname, sizeof(opname), "lower(%lld)", key); break;
                case 5: snprintf(opname, sizeof(opname), "ins2(%lld)", key); break;
                case 6: snprintf(opname, sizeof(opname), "clear"); break;
                default: snprintf(opname, sizeof(opname), "clearnd"); break;
                }
                snprintf(ctx, sizeof(ctx), "shape#%u %s", cur, opname);
                switch (op) {
                case 0: do_insert(&s, &m, &U_int, key, 0, ctx); break;
                case 1: do_remove(&s, &m, &U_int, key, 0, 0, ctx); break;
                case 2: do_remove(&s, &m, &U_int, key, 0, 1, ctx); break;
                case 3: do_find(&s, &m, &U_int, key, 0, ctx); break;
                case 4: do_lower(&s, &m, &U_int, key, 0, ctx); break;
                case 5:
                    /* insert of a present key twice in a row (replace the replacement) */
                    if (key < 0 || (key & 1) || key >= 2 * nkeys) { drop_state(&s, &m); continue; }
                    do_insert(&s, &m, &U_int, key, 0, ctx);
                    do_insert(&s, &m, &U_int, key, 0, ctx);
                    break;
                case 6: do_clear(&s, &m, &U_int, 0, ctx); break;
                default: do_clear(&s, &m, &U_int, 1, ctx); break;
                }
                n_transitions++;
                audit(&s, &m, ctx);
                if (n_viol != viol_before && n_viol <= 20) {
                    printf("PATH");
                    print_path(cur);
                    printf(" %s\n", opname);
                }
                memset(&sh, 0, sizeof(sh));
                ser(s.root, &sh);
                if (n_viol == viol_before)
                    shape_intern(&sh, cur, opname);
                drop_state(&s, &m);
            }
        }
    }
    printf("SHAPES nkeys=%d shapes=%u transitions=%lu\n", nkeys, n_shapes, n_transitions);
    free(shapes);
    free(htab);
    free(m.v);
}

/* ---- part 2: long random sequences ---------------------------------------- */

static uint64_t rng_state;
static uint32_t rnd(void)
{
    rng_state ^= rng_state << 13;
    rng_state ^= rng_state >> 7;
    rng_state ^= rng_state << 17;
    return (uint32_t)(rng_state >> 16);
}

static long long *keypool;
static unsigned int keypool_n;

static void random_run(const char *cmpname, unsigned long seed, unsigned int universe, unsigned long ops)
{
    struct universe *u;
    struct set *s;
    struct model m;
    unsigned long ii;
    unsigned int kk;
    char ctx[96];

    memset(&m, 0, sizeof(m));
    rng_state = seed * 0x9E3779B97F4A7C15ull + 0x1234567;
    if (!strcmp(cmpname, "int") || !strcmp(cmpname, "intx"))
        u = &U_int;
    else if (!strcmp(cmpname, "voidp"))
        u = &U_voidp;
    else
        u = &U_str;
    s = set_alloc(u->cmp, u == &U_str ? str_elem_cleanup : elem_cleanup);
    keypool = malloc(universe * sizeof(keypool[0]));
    keypool_n = universe;
    for (kk = 0; kk < universe; ++kk) {
        if (!strcmp(cmpname, "intx")) {
            /* extreme values: near INT_MIN / INT_MAX / 0, differences overflow int */
            static const long long anchors[] = { -2147483648LL, 2147483647LL, 0, -1, 1, 1073741824LL, -1073741825LL };
            keypool[kk] = anchors[kk % 7] + ((kk % 7) == 0 ? (long long)(kk / 7) : (kk % 7) == 1 ? -(long long)(kk / 7) : (long long)(kk / 7) * ((kk & 8) ? 3 : -5));
            if (keypool[kk] > 2147483647LL) keypool[kk] = 2147483647LL - kk;
            if (keypool[kk] < -2147483648LL) keypool[kk] = -2147483648LL + kk;
        } else if (u == &U_voidp) {
            keypool[kk] = (long long)((rnd() & 1) ? 0x7fff00000000ull : 0x1000ull) + (long long)kk * 8;
        } else if (u == &U_int) {
            keypool[kk] = (long long)kk * 3 - universe;
        } else {
            keypool[kk] = kk * 2;
        }
    }
    for (ii = 0; ii < ops; ++ii) {
        uint32_t r = rnd();
        long long key = keypool[rnd() % universe];
        unsigned int variant = rnd() & 255;
        unsigned int op = r % 100;
        /* for strings and ints, also probe keys that are never inserted */
        int absent = (rnd() % 8) == 0 && u != &U_voidp && strcmp(cmpname, "intx");
        if (absent)
            key += 1;
        snprintf(ctx, sizeof(ctx), "%s seed=%lu op#%lu", cmpname, seed, ii);
        keep_removed = 1;
        if (pool_n && (op % 7) == 0)
            do_reinsert(s, &m, u, ctx);
        else if (op < 40 && !absent)
            do_insert(s, &m, u, key, variant, ctx);
        else if (op < 60)
            do_remove(s, &m, u, key, variant, 0, ctx);
        else if (op < 65)
            do_remove(s, &m, u, key, variant, 1, ctx);
        else if (op < 82)
            do_find(s, &m, u, key, variant, ctx);
        else if (op < 98)
            do_lower(s, &m, u, key, variant, ctx);
        else if (op < 99 && (rnd() % 64) == 0)
            do_clear(s, &m, u, 0, ctx);
        else if ((rnd() % (universe <= 16 ? 8 : 64)) == 0)
            do_clear(s, &m, u, 1, ctx);
        else
            do_find(s, &m, u, key, variant, ctx);
        /* cheap checks every op, full audit every so often and when small */
        if (set_size(s) != m.n)
            viol("size", "%s: set_size=%u model=%u", ctx, set_size(s), m.n);
        if (m.n <= 12 || (ii % 257) == 0)
            audit(s, &m, ctx);
        if (n_viol > 20)
            break;
    }
    audit(s, &m, "final");
    keep_removed = 0;
    do_clear(s, &m, u, 0, "final-clear");
    while (pool_n) {
        struct set_node *n = pool[--pool_n];
        struct elem *e = set_node_data(n);
        cleaned[e->id] = 1;
        if (u->cmp == set_compare_charp)
            free(e->k.skey);
        free(n);
    }
    free(s);
    free(keypool);
    free(m.v);
}

/* ---- part 2b: deep trees -------------------------------------------------- */

/* n keys inserted in key order with nothing in between leave one chain as deep as the set; then the operations that have to
 * reach its far end: find / lower / remove of the first and of the last keys, replacement of an equal key, and again after each. */
/* deepclear: n keys inserted in key order and NOTHING looked up in between - the tree is one chain as deep as the set - then the
 * set is cleared (what the daemon does with its request table at end of input when every request is still pending), twice. */
static void deepclear_run(unsigned int n, int descending)
{
    struct universe *u = &U_int;
    struct set *s = set_alloc(u->cmp, elem_cleanup);
    struct model m;
    unsigned int kk, round;
    char ctx[96];

    memset(&m, 0, sizeof(m));
    keypool = malloc(n * sizeof(keypool[0]));
    keypool_n = n;
    for (kk = 0; kk < n; ++kk)
        keypool[kk] = (long long)kk * 2 - n;
    for (round = 0; round < 2; ++round) {
        if (m.cap < n) {
            m.cap = n;
            m.v = realloc(m.v, m.cap * sizeof(m.v[0]));
        }
        for (kk = 0; kk < n; ++kk) {
            /* (the model's sorted array is filled in place: inserting at its front would move the whole array every time) */
            unsigned int at = descending ? n - 1 - kk : kk;
            struct set_node *nd = elem_new(keypool[at]);
            struct elem *e = set_node_data(nd);
            u->setkey(e, keypool[at], kk & 255);
            m.v[at] = e;
            linked[e->id] = 1;
            in_set_call = 1;
            set_insert(s, nd);
            in_set_call = 0;
            n_ops++;
        }
        m.n = n;
        snprintf(ctx, sizeof(ctx), "deepclear n=%u round %u", n, round);
        if (set_size(s) != m.n)
            viol("size", "%s: set_size=%u model=%u", ctx, set_size(s), m.n);
        keep_removed = 0;
        do_clear(s, &m, u, 0, "deepclear-clear");
        if (set_size(s) != 0)
            viol("size", "deepclear n=%u: %u elements after clear", n, set_size(s));
    }
    free(s);
    free(keypool);
    free(m.v);
}

static void fill_run(const char *cmpname, unsigned int n, int descending)
{
    struct universe *u = !strcmp(cmpname, "int") ? &U_int : !strcmp(cmpname, "voidp") ? &U_voidp : &U_str;
    struct set *s = set_alloc(u->cmp, u == &U_str ? str_elem_cleanup : elem_cleanup);
    struct model m;
    unsigned int kk, round;
    char ctx[96];

    memset(&m, 0, sizeof(m));
    rng_state = 0x9E3779B97F4A7C15ull * (n + 1);
    keypool = malloc(n * sizeof(keypool[0]));
    keypool_n = n;
    for (kk = 0; kk < n; ++kk)
        keypool[kk] = u == &U_int ? (long long)kk * 3 - n : u == &U_voidp ? 0x1000ll + (long long)kk * 8 : (long long)kk * 2;
    for (round = 0; round < 3; ++round) {
        for (kk = 0; kk < n; ++kk) {
            snprintf(ctx, sizeof(ctx), "fill %s n=%u %s round %u insert#%u", cmpname, n, descending ? "desc" : "asc", round, kk);
            do_insert(s, &m, u, keypool[descending ? n - 1 - kk : kk], kk & 255, ctx);
        }
        if (set_size(s) != m.n)
            viol("size", "%s: set_size=%u model=%u", ctx, set_size(s), m.n);
        snprintf(ctx, sizeof(ctx), "fill %s n=%u %s round %u far end", cmpname, n, descending ? "desc" : "asc", round);
        /* the far end of the chain is where the first keys went */
        {
            unsigned int far = descending ? n - 1 : 0, near = descending ? 0 : n - 1;
            switch (round) {
            case 0: do_find(s, &m, u, keypool[far], 0, ctx); break;
            case 1: do_remove(s, &m, u, keypool[far], 0, 0, ctx); break;
            default: do_insert(s, &m, u, keypool[far], 77, ctx); break;   /* equal key: replaces */
            }
            if (set_size(s) != m.n)
                viol("size", "%s: set_size=%u model=%u", ctx, set_size(s), m.n);
            audit(s, &m, ctx);
            do_lower(s, &m, u, keypool[far], 0, ctx);
            do_lower(s, &m, u, keypool[near], 0, ctx);
            do_find(s, &m, u, keypool[n / 2], 0, ctx);
            do_remove(s, &m, u, keypool[near], 0, 0, ctx);
            do_find(s, &m, u, keypool[far], 0, ctx);
            audit(s, &m, ctx);
        }
        keep_removed = 0;
        do_clear(s, &m, u, 0, "fill-clear");
        if (n_viol > 20)
            break;
    }
    free(s);
    free(keypool);
    free(m.v);
}

/* ---- part 3: comparator laws ---------------------------------------------- */

static int sgn(int x) { return (x > 0) - (x < 0); }

static void laws(void)
{
    static const int iv[] = { INT_MIN, INT_MIN + 1, -1073741825, -1073741824, -2, -1, 0, 1, 2, 1073741823, 1073741824, INT_MAX - 1, INT_MAX };
    unsigned int a, b, c, n = sizeof(iv) / sizeof(iv[0]);
    unsigned long checks = 0;

    for (a = 0; a < n; ++a)
        for (b = 0; b < n; ++b) {
            int r = sgn(set_compare_int(&iv[a], &iv[b]));
            int want = (iv[a] > iv[b]) - (iv[a] < iv[b]);
            checks++;
            if (r != want)
                viol("law-int-sign", "set_compare_int(%d,%d) has sign %d, want %d", iv[a], iv[b], r, want);
            if (sgn(set_compare_int(&iv[b], &iv[a])) != -r)
                viol("law-int-antisym", "set_compare_int not antisymmetric on %d,%d", iv[a], iv[b]);
            for (c = 0; c < n; ++c) {
                checks++;
                if (set_compare_int(&iv[a], &iv[b]) < 0 && set_compare_int(&iv[b], &iv[c]) < 0
                    && !(set_compare_int(&iv[a], &iv[c]) < 0))
                    viol("law-int-trans", "set_compare_int not transitive on %d,%d,%d", iv[a], iv[b], iv[c]);
            }
        }
    {
        void *pv[] = { (void *)0, (void *)1, (void *)0x7fffffffffffull, (void *)0x800000000000ull, (void *)UINTPTR_MAX };
        unsigned int pn = sizeof(pv) / sizeof(pv[0]);
        for (a = 0; a < pn; ++a)
            for (b = 0; b < pn; ++b) {
                int want = ((uintptr_t)pv[a] > (uintptr_t)pv[b]) - ((uintptr_t)pv[a] < (uintptr_t)pv[b]);
                checks += 2;
                if (sgn(set_compare_voidp(&pv[a], &pv[b])) != want)
                    viol("law-voidp-sign", "set_compare_voidp(%p,%p)", pv[a], pv[b]);
                if (sgn(set_compare_ptr(pv[a], pv[b])) != want)
                    viol("law-ptr-sign", "set_compare_ptr(%p,%p)", pv[a], pv[b]);
            }
    }
    {
        const char *sv[] = { "", "a", "A", "ab", "AB", "aB", "b", "B", "\xe9", "z", "Z", "_" };
        unsigned int sn = sizeof(sv) / sizeof(sv[0]);
        for (a = 0; a < sn; ++a)
            for (b = 0; b < sn; ++b) {
                int r = sgn(set_compare_charp(&sv[a], &sv[b]));
                checks++;
                if (r != -sgn(set_compare_charp(&sv[b], &sv[a])))
                    viol("law-charp-antisym", "set_compare_charp not antisymmetric on '%s','%s'", sv[a], sv[b]);
                if ((r == 0) != (strcasecmp(sv[a], sv[b]) == 0))
                    viol("law-charp-eq", "set_compare_charp equality on '%s','%s'", sv[a], sv[b]);
                for (c = 0; c < sn; ++c)
                    if (set_compare_charp(&sv[a], &sv[b]) < 0 && set_compare_charp(&sv[b], &sv[c]) < 0
                        && !(set_compare_charp(&sv[a], &sv[c]) < 0))
                        viol("law-charp-trans", "not transitive");
            }
    }
    printf("LAWS checks=%lu\n", checks);
}

int main(int argc, char *argv[])
{
    setvbuf(stdout, NULL, _IOLBF, 0);
    cleaned = calloc(MAX_IDS, 1);
    linked = calloc(MAX_IDS, 1);
    if (argc >= 3 && !strcmp(argv[1], "shapes")) {
        int n = atoi(argv[2]);
        if (n < 1 || n >= MAXK)
            return 3;
        explore(n);
    } else if (argc >= 6 && !strcmp(argv[1], "random")) {
        random_run(argv[2], strtoul(argv[3], NULL, 10), (unsigned)atoi(argv[4]), strtoul(argv[5], NULL, 10));
    } else if (argc >= 4 && !strcmp(argv[1], "deepclear")) {
        deepclear_run((unsigned)atoi(argv[2]), atoi(argv[3]));
    } else if (argc >= 5 && !strcmp(argv[1], "fill")) {
        fill_run(argv[2], (unsigned)atoi(argv[3]), atoi(argv[4]));
    } else if (argc >= 2 && !strcmp(argv[1], "laws")) {
        laws();
    } else {
        fprintf(stderr, "usage\n");
        return 3;
    }
    printf("STATS reinserted=%lu reinserted_into_empty=%lu ops=%lu audits=%lu cleanups=%lu replacements=%lu absent_probes=%lu ids=%u violations=%lu\n",
           n_reinserted, n_reinserted_into_empty,
           n_ops, n_audits, n_cleanups, n_replacements, n_absent_probes, next_id - 1, n_viol);
    free(cleaned);
    free(linked);
    free(walk_buf);
    return n_viol ? 1 : 0;
}
