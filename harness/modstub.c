/* modstub - fixture module for C20.  One shared object, copied to m0.so .. m5.so;
 * the real iauthd-c loads the copies.  Every entry point appends one event line
 * to $VERIF_MODLOG; the constructor declares the dependencies listed for its
 * own name (a destructor may be made slow, see module_destructor) in $VERIF_MODGRAPH ("m0:m1,m2;m1:m3"; "m3:!m0" = m3 declares itself a back end of m0).
 */
#include <fcntl.h>
#include <stdio.h>
#include <stdlib.h>
#include <string.h>
#include <unistd.h>

struct module;
void module_depends(const char *name, ...);
void module_antidepends(const char *name, ...);
const char *module_get_name(const struct module *mod);

static char myname[64];

static void ev(const char *what, const char *name)
{
    const char *path = getenv("VERIF_MODLOG");
    char line[160];
    int fd, n;
    if (!path)
        return;
    fd = open(path, O_WRONLY | O_APPEND | O_CREAT, 0644);
    if (fd < 0)
        return;
    n = snprintf(line, sizeof(line), "%s %s\n", what, name);
    if (write(fd, line, n) != n) { /* ignore */ }
    close(fd);
}

void module_constructor(const char name[])
{
    const char *graph = getenv("VERIF_MODGRAPH");
    static char deps[8][64]; /* static: module_depends keeps the pointers */
    int ndeps = 0, ii;

    snprintf(myname, sizeof(myname), "%s", name);
    ev("ctor-begin", myname);
    while (graph && *graph) {
        const char *colon = strchr(graph, ':');
        const char *semi = strchr(graph, ';');
        size_t nlen;
        if (!colon)
            break;
        if (!semi)
            semi = graph + strlen(graph);
        nlen = colon - graph;
        if (nlen == strlen(name) && !strncmp(graph, name, nlen)) {
            const char *p = colon + 1;
            while (p < semi && ndeps < 8) {
                const char *comma = memchr(p, ',', semi - p);
                size_t dl = (comma ? comma : semi) - p;
                if (dl > 0 && dl < sizeof(deps[0])) {
                    memcpy(deps[ndeps], p, dl);
                    deps[ndeps][dl] = '\0';
                    ndeps++;
                }
                p += dl + 1;
            }
        }
        graph = *semi ? semi + 1 : semi;
    }
    for (ii = 0; ii < ndeps; ++ii) {
        /* "!name": this module is a back-end provider for <name> (README: must be unloaded after it) */
        if (deps[ii][0] == '!')
            module_antidepends(deps[ii] + 1, (const char *)NULL);
        else
            module_depends(deps[ii], (const char *)NULL);
    }
    ev("ctor-end", myname);
}

void module_post_init(struct module *self)
{
    const char *n = module_get_name(self);
    ev("post-init", n ? n : "?");
    if (n && strcmp(n, myname))
        ev("post-init-wrong-self", myname);
}

void module_destructor(void)
{
    /* $VERIF_MODSLOW ("m2:20;m4:15"): this module's destructor takes that many milliseconds */
    const char *slow = getenv("VERIF_MODSLOW");
    size_t nlen = strlen(myname);
    while (slow && *slow) {
        const char *semi = strchr(slow, ';');
        if (!strncmp(slow, myname, nlen) && slow[nlen] == ':')
            usleep(1000u * (unsigned)atoi(slow + nlen + 1));
        slow = semi ? semi + 1 : NULL;
    }
    ev("dtor", myname);
}
