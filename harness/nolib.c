/* nolib - fixture module for C20 WITHOUT a constructor (README: a module "should export up to three standard entry points";
 * the constructor is optional).  It cannot declare dependencies; others depend on it.  Events: post-init and dtor. */
#define _GNU_SOURCE
#include <dlfcn.h>
#include <fcntl.h>
#include <stdio.h>
#include <stdlib.h>
#include <string.h>
#include <unistd.h>

struct module;
const char *module_get_name(const struct module *mod);

static char myname[64];

static void ev(const char *what, const char *name)
{
    const char *path = getenv("VERIF_MODLOG");
    char line[160];
    int fd, n;
    if (!path)
        return;
    fd = open(path, O_WRONLY | O_APPEND | O_CREAT, 0644);
    if (fd < 0)
        return;
    n = snprintf(line, sizeof(line), "%s %s\n", what, name);
    if (write(fd, line, n) != n) { /* ignore */ }
    close(fd);
}

static void whoami(void)
{
    Dl_info info;
    if (myname[0])
        return;
    if (dladdr((void *)whoami, &info) && info.dli_fname) {
        const char *b = strrchr(info.dli_fname, '/');
        size_t len;
        b = b ? b + 1 : info.dli_fname;
        len = strcspn(b, ".");
        if (len >= sizeof(myname))
            len = sizeof(myname) - 1;
        memcpy(myname, b, len);
        myname[len] = '\0';
    }
}

void module_post_init(struct module *self)
{
    const char *n = module_get_name(self);
    whoami();
    ev("post-init", n ? n : "?");
    if (n && strcmp(n, myname))
        ev("post-init-wrong-self", myname);
}

void module_destructor(void)
{
    whoami();
    ev("dtor", myname);
}
