/* h_conf - runtime monitor harness for src/config.c and src/log.c (C14, C15, C16, C18).
 *
 * Links every file of src/ except main.c, unmodified.  Reads a command script
 * on stdin; arguments are %XX-encoded.
 *
 *   CASE <name> ... END     run the enclosed commands in a forked child (alarm armed),
 *                           then print "CASE-END <name> exit=<n>|signal=<n>|timeout"
 *   REG obj <path>                          register the objects along <path>, hook on the last
 *   REG str <path> <subtype 0-5> <default|%00 for NULL>
 *   REG list <path> <n> <item>...           default list
 *   REG inaddr <path> <host|%00> <service|%00>
 *   LOAD <file>             conf_read(); prints "LOAD rc=<n>"
 *   FDS                     prints "FDS n=<open file descriptors>"
 *   FLOAD <mode> <at> <file>  conf_read() while the environment misbehaves once (see the fault section below);
 *                           prints "LOAD rc=<n>" and "FAULT fired=<n>"
 *   DUMP                    canonical dump of the live tree (values hex-encoded)
 *   COPY <src> <dst>        overwrite the file dst in place with the content of src
 *   SNAP / SAME             remember the dump / compare the current dump with it
 *   HOOKS                   print and clear the update-hook log
 *   LOGREG <facility>       log_type_register()
 *   EMIT <round> <fac>,...  one message per (facility, severity); fatal ones in a grandchild
 *   EMITLONG <round> <fac>,... <len>   padded messages at info and error
 *   REOPEN                  log_reopen()
 *   FSIZE <bytes>|unlimited setrlimit(RLIMIT_FSIZE) (SIGXFSZ ignored): writes to log files fail for a while
 */
#include "src/common.h"
#include <fcntl.h>
#include <signal.h>
#include <sys/wait.h>
#include <sys/resource.h>

struct event_base *ev_base;
struct evdns_base *ev_dns;
int clean_exit;

/* ---- a file read that misbehaves ----------------------------------------------
 * The harness is linked with -Wl,--wrap=fread,--wrap=read: every fread() / read() CALL in the repository's objects (the C
 * library's own internal reads are not touched) comes through here.  While a fault is armed (FLOAD only), the first call
 * that asks for more than <at> bytes is served the way the C library / the kernel may legitimately serve it:
 *   eintr   fread delivers the <at> bytes it has, sets the stream's error flag and errno = EINTR (a signal cut the read)
 *   eio     the same with errno = EIO (dying disk, stale NFS handle)
 *   eof     fread delivers <at> bytes and reports end of file, also on later calls (the file shrank after fstat)
 *   rd      read(2) returns <at> bytes (short read), the next read(2) fails with EINTR, then all is normal
 *   stale   nothing fails; errno is EAGAIN when the load starts (what the daemon's non-blocking reads leave behind)
 *   stalei  nothing fails; errno is EINTR when the load starts (a signal woke the event loop)
 * Everything after the one fault passes through, so a reader that retries correctly gets the whole file.
 */
size_t __real_fread(void *ptr, size_t size, size_t nmemb, FILE *stream);
ssize_t __real_read(int fd, void *buf, size_t count);
static int fault_mode;          /* 0 none, 1 eintr, 2 eio, 3 eof, 4 rd */
static size_t fault_at;
static int fault_state;         /* 0 armed, 1 fired (rd: EINTR pending), 2 over */
static unsigned int fault_fired;

size_t __wrap_fread(void *ptr, size_t size, size_t nmemb, FILE *stream)
{
    size_t got;

    if (fault_mode < 1 || fault_mode > 3 || !size)
        return __real_fread(ptr, size, nmemb, stream);
    if (fault_mode == 3 && fault_state == 1) {
        stream->_flags |= 0x10; /* _IO_EOF_SEEN */
        return 0;
    }
    if (fault_state != 0 || size * nmemb <= fault_at)
        return __real_fread(ptr, size, nmemb, stream);
    got = fault_at ? __real_fread(ptr, 1, fault_at, stream) : 0;
    fault_state = (fault_mode == 3) ? 1 : 2;
    fault_fired++;
    if (fault_mode == 3) {
        stream->_flags |= 0x10;
    } else {
        stream->_flags |= 0x20; /* _IO_ERR_SEEN */
        errno = (fault_mode == 1) ? EINTR : EIO;
    }
    return got / size;
}

ssize_t __wrap_read(int fd, void *buf, size_t count)
{
    if (fault_mode != 4 || fault_state == 2 || fd < 3)
        return __real_read(fd, buf, count);
    if (fault_state == 0) {
        if (count <= fault_at)
            return __real_read(fd, buf, count);
        fault_state = 1;
        fault_fired++;
        return fault_at ? __real_read(fd, buf, fault_at) : (errno = EINTR, fault_state = 2, -1);
    }
    fault_state = 2;
    errno = EINTR;
    return -1;
}

/* ---- small helpers --------------------------------------------------------- */

static char *pct_decode(const char *s, int *is_null)
{
    size_t len = strlen(s), ii, jj;
    char *out = malloc(len + 1);
    if (is_null)
        *is_null = !strcmp(s, "%00");
    if (!strcmp(s, "%_")) { /* the empty string */
        out[0] = '\0';
        return out;
    }
    for (ii = jj = 0; ii < len; ++ii) {
        if (s[ii] == '%' && isxdigit((unsigned char)s[ii + 1]) && isxdigit((unsigned char)s[ii + 2])) {
            char hex[3] = { s[ii + 1], s[ii + 2], 0 };
            out[jj++] = (char)strtoul(hex, NULL, 16);
            ii += 2;
        } else
            out[jj++] = s[ii];
    }
    out[jj] = '\0';
    return out;
}

static void put_hex(struct char_vector *cv, const char *s)
{
    static const char hx[] = "0123456789abcdef";
    if (!s) {
        char_vector_append_string(cv, "NULL");
        return;
    }
    char_vector_append(cv, '"');
    for (; *s; ++s) {
        unsigned char c = (unsigned char)*s;
        if (c > 32 && c < 127 && c != '%' && c != '"') {
            char_vector_append(cv, c);
        } else {
            char_vector_append(cv, '%');
            char_vector_append(cv, hx[c >> 4]);
            char_vector_append(cv, hx[c & 15]);
        }
    }
    char_vector_append(cv, '"');
}

/* ---- hook log ----------------------------------------------------------------- */

static struct char_vector hooklog;
static unsigned long n_hooks;

static void node_path(struct char_vector *cv, struct conf_node_base *n)
{
    if (n->parent && n->parent != conf_get_root()) {
        node_path(cv, &n->parent->base);
        char_vector_append(cv, '/');
    }
    put_hex(cv, n->name);
}

static CONF_UPDATE_HOOK(hook_logger)
{
    static const char *tn[] = { "str", "inaddr", "list", "obj" };
    n_hooks++;
    char_vector_append_string(&hooklog, "HOOK ");
    char_vector_append_string(&hooklog, tn[node_->type]);
    char_vector_append(&hooklog, ' ');
    node_path(&hooklog, node_);
    char_vector_append(&hooklog, '\n');
}

/* ---- dump ------------------------------------------------------------------------ */

static void dump_sv(struct char_vector *cv, const struct string_vector *sv)
{
    unsigned int ii;
    char_vector_append_printf(cv, "%u[", sv->used);
    for (ii = 0; ii < sv->used; ++ii) {
        if (ii)
            char_vector_append(cv, ',');
        put_hex(cv, sv->vec[ii]);
    }
    char_vector_append(cv, ']');
}

static void dump_obj(struct char_vector *cv, struct conf_node_object *obj, const char *prefix)
{
    struct set_node *it;
    unsigned int count = 0;

    for (it = set_first(&obj->contents); it; it = set_next(it), ++count) {
        struct conf_node_base *b = set_node_data(it);
        struct char_vector path;
        memset(&path, 0, sizeof(path));
        char_vector_append_string(&path, prefix);
        if (prefix[0])
            char_vector_append(&path, '/');
        put_hex(&path, b->name);
        char_vector_append(&path, '\0');
        if (b->parent != obj)
            char_vector_append_printf(cv, "BADPARENT %s\n", path.vec);
        switch (b->type) {
        case CONF_STRING: {
            struct conf_node_string *s = (struct conf_node_string *)b;
            char_vector_append_printf(cv, "N %s str p=%d s=%d v=", path.vec, b->present, b->specified);
            put_hex(cv, s->value);
            if (b->specified) {
                char_vector_append_string(cv, " d=");
                put_hex(cv, s->def_value);
                char_vector_append_printf(cv, " t=%d parsed=", s->subtype);
                switch (s->subtype) {
                case CONF_STRING_PLAIN:
                    char_vector_append_string(cv, s->parsed.p_string == s->value ? "same" : (s->parsed.p_string ? "other" : "null"));
                    break;
                case CONF_STRING_BOOLEAN: char_vector_append_printf(cv, "%d", s->parsed.p_boolean); break;
                case CONF_STRING_INTEGER: char_vector_append_printf(cv, "%d", s->parsed.p_integer); break;
                case CONF_STRING_FLOAT: char_vector_append_printf(cv, "%.17g", s->parsed.p_double); break;
                case CONF_STRING_INTERVAL: char_vector_append_printf(cv, "%u", s->parsed.p_interval); break;
                case CONF_STRING_VOLUME: char_vector_append_printf(cv, "%u", s->parsed.p_volume); break;
                }
            }
            char_vector_append(cv, '\n');
            break;
        }
        case CONF_INADDR: {
            struct conf_node_inaddr *a = (struct conf_node_inaddr *)b;
            char_vector_append_printf(cv, "N %s inaddr p=%d s=%d h=", path.vec, b->present, b->specified);
            put_hex(cv, a->hostname);
            char_vector_append_string(cv, " sv=");
            put_hex(cv, a->service);
            if (b->specified) {
                char_vector_append_string(cv, " dh=");
                put_hex(cv, a->def_hostname);
                char_vector_append_string(cv, " ds=");
                put_hex(cv, a->def_service);
            }
            char_vector_append(cv, '\n');
            break;
        }
        case CONF_STRING_LIST: {
            struct conf_node_string_list *l = (struct conf_node_string_list *)b;
            char_vector_append_printf(cv, "N %s list p=%d s=%d v=", path.vec, b->present, b->specified);
            dump_sv(cv, &l->value);
            if (b->specified) {
                char_vector_append_string(cv, " d=");
                dump_sv(cv, &l->def_value);
            }
            char_vector_append(cv, '\n');
            break;
        }
        case CONF_OBJECT: {
            struct conf_node_object *o = (struct conf_node_object *)b;
            char_vector_append_printf(cv, "N %s obj p=%d s=%d n=%u\n", path.vec, b->present, b->specified, set_size(&o->contents));
            dump_obj(cv, o, path.vec);
            break;
        }
        }
        xfree(path.vec);
        if (count > 100000) {
            char_vector_append_string(cv, "RUNAWAY\n");
            break;
        }
    }
    if (count != set_size(&obj->contents))
        char_vector_append_printf(cv, "BADCOUNT %s walk=%u size=%u\n", prefix, count, set_size(&obj->contents));
}

static char *make_dump(void)
{
    struct char_vector cv;
    memset(&cv, 0, sizeof(cv));
    dump_obj(&cv, conf_get_root(), "");
    char_vector_append(&cv, '\0');
    return cv.vec;
}

/* ---- registration ------------------------------------------------------------------ */

/* Walk "a/b/c": register objects for all but the last component; returns parent, sets *leaf. */
static struct conf_node_object *walk_path(char *path, char **leaf, int hook_parents)
{
    struct conf_node_object *parent = NULL;
    char *slash;
    while ((slash = strchr(path, '/')) != NULL) {
        char *name;
        *slash = '\0';
        name = pct_decode(path, NULL);
        parent = conf_register_object(parent, name);
        if (hook_parents && !parent->base.hook)
            parent->base.hook = hook_logger;
        free(name);
        path = slash + 1;
    }
    *leaf = pct_decode(path, NULL);
    return parent;
}

/* default strings must outlive the registration (the config code keeps the pointer) */
static char *keep(char *s)
{
    static struct string_vector keeper;
    string_vector_append(&keeper, s);
    return s;
}

static void do_reg(int argc, char **argv)
{
    struct conf_node_object *parent;
    char *leaf;
    if (argc < 3)
        return;
    parent = walk_path(argv[2], &leaf, 1);
    keep(leaf);
    if (!strcmp(argv[1], "obj")) {
        struct conf_node_object *o = conf_register_object(parent, leaf);
        o->base.hook = hook_logger;
    } else if (!strcmp(argv[1], "str") && argc >= 5) {
        int isnull;
        char *def = keep(pct_decode(argv[4], &isnull));
        struct conf_node_string *s;
        /* install the hook before the first parse would need it?  Real modules set
         * hooks after registering; do the same. */
        s = conf_register_string(parent, (enum conf_node_string_subtype)atoi(argv[3]), leaf, isnull ? NULL : def);
        s->base.hook = hook_logger;
    } else if (!strcmp(argv[1], "list") && argc >= 4) {
        struct string_vector sv;
        struct conf_node_string_list *l;
        int n = atoi(argv[3]), ii;
        memset(&sv, 0, sizeof(sv));
        for (ii = 0; ii < n && 4 + ii < argc; ++ii)
            string_vector_append(&sv, pct_decode(argv[4 + ii], NULL));
        l = conf_register_string_list_sv(parent, leaf, &sv);
        l->base.hook = hook_logger;
        string_vector_clear_int(&sv);
    } else if (!strcmp(argv[1], "listv") && argc >= 4) {
        /* the variadic twin of the above (what src/main.c uses for library_path and modules): up to three default items */
        struct conf_node_string_list *l;
        int n = atoi(argv[3]);
        char *d0 = (n > 0 && argc > 4) ? keep(pct_decode(argv[4], NULL)) : NULL;
        char *d1 = (n > 1 && argc > 5) ? keep(pct_decode(argv[5], NULL)) : NULL;
        char *d2 = (n > 2 && argc > 6) ? keep(pct_decode(argv[6], NULL)) : NULL;
        l = conf_register_string_list(parent, leaf, d0, d1, d2, (const char *)NULL);
        l->base.hook = hook_logger;
    } else if (!strcmp(argv[1], "inaddr") && argc >= 5) {
        int hn, sn;
        char *h = keep(pct_decode(argv[3], &hn));
        char *sv = keep(pct_decode(argv[4], &sn));
        struct conf_node_inaddr *a = conf_register_inaddr(parent, leaf, hn ? NULL : h, sn ? NULL : sv);
        a->base.hook = hook_logger;
    }
}

/* ---- logging -------------------------------------------------------------------------- */

static const char *sevnames[] = { "debug", "command", "info", "warning", "error", "fatal" };

static void do_emit(const char *round, char *facs)
{
    char *fac, *save = NULL;
    for (fac = strtok_r(facs, ",", &save); fac; fac = strtok_r(NULL, ",", &save)) {
        char *name = pct_decode(fac, NULL);
        struct log_type *lt = log_type_register(name, NULL);
        int sev;
        for (sev = 0; sev < LOG_NUM_SEVERITIES; ++sev) {
            if (sev == LOG_FATAL) {
                pid_t pid;
                fflush(stdout);
                pid = fork();
                if (pid == 0) {
                    log_message(lt, sev, "MSG r=%s f=%s s=%s", round, fac, sevnames[sev]);
                    _exit(7); /* not reached: a fatal message terminates the process */
                } else if (pid > 0) {
                    int st;
                    waitpid(pid, &st, 0);
                    if (!WIFEXITED(st) || WEXITSTATUS(st) != 1)
                        printf("FATAL-CHILD status=%d\n", st);
                }
            } else
                log_message(lt, sev, "MSG r=%s f=%s s=%s", round, fac, sevnames[sev]);
        }
        free(name);
    }
}

/* EMITLONG <round> <fac>,... <len>: one message with <len> bytes of padding per facility at info and error */
static void do_emit_long(const char *round, char *facs, unsigned int len)
{
    char *fac, *save = NULL, *pad = malloc(len + 1);
    unsigned int ii;
    for (ii = 0; ii < len; ++ii)
        pad[ii] = (char)('0' + ii % 10);
    /* a carriage return in the middle of the text (free text that came off the wire may hold one): part of the message, not its end */
    if (len >= 16)
        pad[len / 2] = '\r';
    pad[len] = '\0';
    for (fac = strtok_r(facs, ",", &save); fac; fac = strtok_r(NULL, ",", &save)) {
        char *name = pct_decode(fac, NULL);
        struct log_type *lt = log_type_register(name, NULL);
        log_message(lt, LOG_INFO, "MSG r=%s f=%s s=%s p=%s", round, fac, sevnames[LOG_INFO], pad);
        log_message(lt, LOG_ERROR, "MSG r=%s f=%s s=%s p=%s", round, fac, sevnames[LOG_ERROR], pad);
        free(name);
    }
    free(pad);
}

/* ---- command interpreter ---------------------------------------------------------------- */

static char *snapshot;

static int run_command(char *line)
{
    char *argv[64];
    int argc = 0;
    char *tok, *save = NULL;

    for (tok = strtok_r(line, " \r\n", &save); tok && argc < 64; tok = strtok_r(NULL, " \r\n", &save))
        argv[argc++] = tok;
    if (!argc)
        return 0;
    if (!strcmp(argv[0], "REG")) {
        do_reg(argc, argv);
    } else if (!strcmp(argv[0], "LOAD") && argc >= 2) {
        char *f = pct_decode(argv[1], NULL);
        int rc = conf_read(f);
        printf("LOAD rc=%d\n", rc);
        free(f);
    } else if (!strcmp(argv[0], "FLOAD") && argc >= 4) {
        char *f = pct_decode(argv[3], NULL);
        int rc, pre = 0;
        fault_at = (size_t)strtoul(argv[2], NULL, 10);
        fault_state = 0;
        fault_fired = 0;
        fault_mode = !strcmp(argv[1], "eintr") ? 1 : !strcmp(argv[1], "eio") ? 2 : !strcmp(argv[1], "eof") ? 3 : !strcmp(argv[1], "rd") ? 4 : 0;
        if (!strcmp(argv[1], "stale")) pre = EAGAIN;
        if (!strcmp(argv[1], "stalei")) pre = EINTR;
        errno = pre;
        rc = conf_read(f);
        fault_mode = 0;
        printf("LOAD rc=%d\nFAULT fired=%u\n", rc, fault_fired);
        free(f);
    } else if (!strcmp(argv[0], "FDS")) {
        /* FDS: how many file descriptors are open (a load opens the file and closes it again) */
        unsigned int n = 0, fd;
        for (fd = 0; fd < 1024; ++fd)
            if (fcntl((int)fd, F_GETFD) != -1)
                n++;
        printf("FDS n=%u\n", n);
    } else if (!strcmp(argv[0], "XLOAD") && argc >= 2) {
        /* a load that is expected to be rejected */
        char *f = pct_decode(argv[1], NULL);
        int rc = conf_read(f);
        printf("XLOAD rc=%d\n", rc);
        free(f);
    } else if (!strcmp(argv[0], "COPY") && argc >= 3) {
        /* COPY <src> <dst>: overwrite dst in place (same inode when it exists), the way an editor that
         * does not rename writes a configuration file */
        char *src = pct_decode(argv[1], NULL), *dst = pct_decode(argv[2], NULL);
        FILE *in = fopen(src, "rb"), *out = in ? fopen(dst, "wb") : NULL;
        char buf[4096];
        size_t n;
        int ok = 0;
        if (in && out) {
            ok = 1;
            while ((n = fread(buf, 1, sizeof(buf), in)) > 0)
                if (fwrite(buf, 1, n, out) != n)
                    ok = 0;
        }
        if (in) fclose(in);
        if (out && fclose(out)) ok = 0;
        printf("COPY ok=%d\n", ok);
        free(src);
        free(dst);
    } else if (!strcmp(argv[0], "DUMP")) {
        char *d = make_dump();
        printf("DUMP-BEGIN\n%sDUMP-END\n", d);
        xfree(d);
    } else if (!strcmp(argv[0], "SNAP")) {
        xfree(snapshot);
        snapshot = make_dump();
    } else if (!strcmp(argv[0], "SAME")) {
        char *d = make_dump();
        if (snapshot && !strcmp(d, snapshot))
            printf("SAME yes\n");
        else
            printf("SAME no\nBEFORE-BEGIN\n%sBEFORE-END\nAFTER-BEGIN\n%sAFTER-END\n", snapshot ? snapshot : "", d);
        xfree(d);
    } else if (!strcmp(argv[0], "HOOKS")) {
        char_vector_append(&hooklog, '\0');
        printf("HOOKS-BEGIN\n%sHOOKS-END\n", hooklog.vec ? hooklog.vec : "");
        hooklog.used = 0;
    } else if (!strcmp(argv[0], "LOGREG") && argc >= 2) {
        char *n = pct_decode(argv[1], NULL);
        log_type_register(n, NULL);
        free(n);
    } else if (!strcmp(argv[0], "EMIT") && argc >= 3) {
        do_emit(argv[1], argv[2]);
    } else if (!strcmp(argv[0], "EMITLONG") && argc >= 4) {
        do_emit_long(argv[1], argv[2], (unsigned int)strtoul(argv[3], NULL, 10));
    } else if (!strcmp(argv[0], "FSIZE") && argc >= 2) {
        /* FSIZE <bytes>|unlimited: the largest file this process may write (RLIMIT_FSIZE): with 0 every write to a log FILE
         * fails with EFBIG until the limit is lifted again - a disk that is full for a while */
        struct rlimit rl;
        signal(SIGXFSZ, SIG_IGN);
        getrlimit(RLIMIT_FSIZE, &rl);
        rl.rlim_cur = !strcmp(argv[1], "unlimited") ? rl.rlim_max : (rlim_t)strtoul(argv[1], NULL, 10);
        printf("FSIZE rc=%d\n", setrlimit(RLIMIT_FSIZE, &rl));
    } else if (!strcmp(argv[0], "REOPEN")) {
        log_reopen();
    } else if (!strcmp(argv[0], "PARSE") && argc >= 3) {
        /* PARSE <kind> <text>: the exported typed parsers */
        char *t = pct_decode(argv[2], NULL);
        int ok = -1;
        if (!strcmp(argv[1], "boolean")) { int v = conf_parse_boolean(t, &ok); printf("PARSE ok=%d v=%d\n", ok, v); }
        else if (!strcmp(argv[1], "integer")) { int v = conf_parse_integer(t, &ok); printf("PARSE ok=%d v=%d\n", ok, v); }
        else if (!strcmp(argv[1], "interval")) { unsigned v = conf_parse_interval(t, &ok); printf("PARSE ok=%d v=%u\n", ok, v); }
        else if (!strcmp(argv[1], "volume")) { unsigned v = conf_parse_volume(t, &ok); printf("PARSE ok=%d v=%u\n", ok, v); }
        free(t);
    } else {
        printf("UNKNOWN-COMMAND %s\n", argv[0]);
    }
    return 0;
}

static void run_case(const char *name, struct string_vector *cmds, unsigned int timeout)
{
    pid_t pid;
    int st;
    unsigned int ii;

    fflush(stdout);
    pid = fork();
    if (pid < 0) {
        printf("CASE-END %s forkfail\n", name);
        return;
    }
    if (pid == 0) {
        dup2(1, 2);
        alarm(timeout);
        for (ii = 0; ii < cmds->used; ++ii)
            run_command(cmds->vec[ii]);
        fflush(stdout);
        xfree(snapshot);
        xfree(hooklog.vec);
        call_exit_funcs();
        exit(0);
    }
    if (waitpid(pid, &st, 0) < 0)
        printf("CASE-END %s waitfail\n", name);
    else if (WIFSIGNALED(st) && WTERMSIG(st) == SIGALRM)
        printf("CASE-END %s timeout\n", name);
    else if (WIFSIGNALED(st))
        printf("CASE-END %s signal=%d\n", name, WTERMSIG(st));
    else
        printf("CASE-END %s exit=%d\n", name, WEXITSTATUS(st));
    fflush(stdout);
}

int main(int argc, char *argv[])
{
    char *line = NULL;
    size_t cap = 0;
    struct string_vector cmds;
    char casename[128] = "";
    int in_case = 0;
    unsigned int timeout = argc > 1 ? (unsigned)atoi(argv[1]) : 20;

    setvbuf(stdout, NULL, _IOFBF, 1 << 16);
    memset(&cmds, 0, sizeof(cmds));
    ctype_init();
    module_init();
    log_set_verbosity(0);
    conf_get_root();
    while (getline(&line, &cap, stdin) > 0) {
        if (!strncmp(line, "CASE ", 5)) {
            snprintf(casename, sizeof(casename), "%s", line + 5);
            casename[strcspn(casename, "\r\n")] = '\0';
            in_case = 1;
            string_vector_clear_int(&cmds);
            printf("CASE-BEGIN %s\n", casename);
        } else if (!strncmp(line, "END", 3) && in_case) {
            run_case(casename, &cmds, timeout);
            in_case = 0;
        } else if (in_case) {
            string_vector_append(&cmds, strdup(line));
        } else {
            run_command(line);
        }
    }
    free(line);
    string_vector_clear_int(&cmds);
    fflush(stdout);
    return 0;
}
