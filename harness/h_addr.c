/* h_addr - runtime monitor for irc_ntop / irc_pton / irc_check_mask (C12, C13).
 *
 * Links the unmodified modules/iauth_misc.c.  Sub-commands:
 *   ntop-patterns <from> <to>     all 5^8 digit-count patterns, slice [from,to) of the first-group digit
 *   ntop-random <seed> <count>    random 128-bit values (several distributions)
 *   ntop-sizes <seed> <count>     every out_size 1..40 for random values
 *   mask-exhaust <group>          every length 0..128 x every 16-bit difference in one group
 *   mask-random <seed> <count>
 *   pton-grammar <seed> <count>   grammar-derived CIDR / wildcard strings with expected (bits, network)
 *   pton-strings <maxlen> <first> all strings over a small alphabet up to maxlen starting with alphabet[first]
 *   pton-mutate <seed> <count>    mutated valid strings
 *   pton-file                     strings from stdin, one per line (replay)
 *
 * All buffers handed to the functions are heap blocks of exactly the needed
 * size, so ASan's red zones sit directly behind them.
 */
#include "modules/iauth.h"
#include <arpa/inet.h>

/* The character table and the allocation helpers are the repository's own (src/common.c is linked unmodified); the only thing
 * it needs from the rest of the core is the logger, used when an allocation fails. */
struct log_type *log_core;
void log_message(struct log_type *type, enum log_severity sev, const char *format, ...)
{
    (void)type; (void)format;
    if (sev == LOG_FATAL)
        abort();
}
void module_close_all(void) { }   /* referenced by call_exit_funcs(), which this harness never calls */
static void my_ctype_init(void)
{
    ctype_init();
}

static unsigned long n_viol, n_eval, n_accept, n_reject, n_agree;
static uint64_t rng_state;

static uint32_t rnd(void)
{
    rng_state ^= rng_state << 13;
    rng_state ^= rng_state >> 7;
    rng_state ^= rng_state << 17;
    return (uint32_t)(rng_state >> 20);
}

static void viol(const char *rule, const char *fmt, ...)
{
    va_list ap;
    n_viol++;
    if (n_viol > 25)
        return;
    printf("VIOL %s ", rule);
    va_start(ap, fmt);
    vprintf(fmt, ap);
    va_end(ap);
    printf("\n");
#ifdef H_ADDR_FUZZ
    fflush(stdout);
    abort();   /* libFuzzer keeps the input as a crash artifact */
#endif
}

static const char *hex128(const irc_inaddr *a)
{
    static char buf[4][48];
    static int which;
    char *b = buf[which++ & 3];
    sprintf(b, "%04x:%04x:%04x:%04x:%04x:%04x:%04x:%04x", ntohs(a->in6[0]), ntohs(a->in6[1]), ntohs(a->in6[2]),
            ntohs(a->in6[3]), ntohs(a->in6[4]), ntohs(a->in6[5]), ntohs(a->in6[6]), ntohs(a->in6[7]));
    return b;
}

/* exact-size heap copy of a string */
static char *exact(const char *s, size_t len)
{
    char *p = malloc(len + 1);
    memcpy(p, s, len);
    p[len] = '\0';
    return p;
}

/* ---- C12: one address through the printer and back --------------------- */

static int is_compat_v4(const irc_inaddr *a)
{
    /* ::a.b.c.d form that the printer treats as IPv4 (in6[5]==0) */
    return irc_inaddr_is_ipv4(*a) && a->in6[5] == 0;
}

static unsigned long n_v4_text, n_v6_text, n_compressed, n_leading0;

static void check_ntop(const irc_inaddr *addr)
{
    char *out = malloc(IRC_NTOP_MAX);
    irc_inaddr back, want, libc;
    unsigned int len, plen, len2;
    char *text, *out2;

    n_eval++;
    memset(out, 0x55, IRC_NTOP_MAX);
    len = irc_ntop(out, IRC_NTOP_MAX, addr);
    if (len >= IRC_NTOP_MAX) {
        viol("ntop-length", "%s prints to %u characters (buffer is %d)", hex128(addr), len, IRC_NTOP_MAX);
        free(out);
        return;
    }
    if (memchr(out, '\0', IRC_NTOP_MAX) == NULL || strlen(out) != len) {
        viol("ntop-retval", "%s: return value %u but text '%.*s' has different length", hex128(addr), len, IRC_NTOP_MAX, out);
        free(out);
        return;
    }
    if (out[0] == ':')
        viol("ntop-colon", "%s prints as '%s' (begins with ':')", hex128(addr), out);
    if (strchr(out, '.')) n_v4_text++; else n_v6_text++;
    if (strstr(out, "::")) n_compressed++;
    if (!strncmp(out, "0::", 3)) n_leading0++;
    want = *addr;
    if (is_compat_v4(addr))
        want.in6[5] = htons(65535); /* IPv4-compatible canonicalises to IPv4-mapped */
    text = exact(out, len);
    memset(&back, 0xAA, sizeof(back));
    plen = irc_pton(&back, NULL, text, 0);
    if (plen != len)
        viol("ntop-own-parser", "%s prints as '%s'; irc_pton consumed %u of %u characters", hex128(addr), text, plen, len);
    else if (memcmp(&back, &want, sizeof(want)))
        viol("ntop-roundtrip", "%s prints as '%s' which irc_pton reads as %s", hex128(addr), text, hex128(&back));
    /* standard library parser */
    {
        int ok;
        if (strchr(text, ':')) {
            ok = inet_pton(AF_INET6, text, &libc);
        } else {
            struct in_addr a4;
            ok = inet_pton(AF_INET, text, &a4);
            memset(&libc, 0, sizeof(libc));
            libc.in6[5] = htons(65535);
            memcpy(&libc.in6[6], &a4, 4);
        }
        if (ok != 1)
            viol("ntop-libc-reject", "%s prints as '%s' which inet_pton rejects", hex128(addr), text);
        else if (memcmp(&libc, &want, sizeof(want)))
            viol("ntop-libc-value", "%s prints as '%s' which inet_pton reads as %s", hex128(addr), text, hex128(&libc));
    }
    /* idempotence: print(parse(print(x))) == print(x) */
    if (plen == len) {
        out2 = malloc(IRC_NTOP_MAX);
        len2 = irc_ntop(out2, IRC_NTOP_MAX, &back);
        if (len2 >= IRC_NTOP_MAX || strcmp(out2, text)) {
            /* compat -> mapped changes nothing in the text */
            viol("ntop-idempotent", "%s: '%s' re-parses and prints as '%.*s'", hex128(addr), text, IRC_NTOP_MAX - 1, out2);
        }
        free(out2);
    }
    free(text);
    free(out);
}

static void fill_group(irc_inaddr *a, int g, int digits, unsigned int variant)
{
    /* value with exactly `digits` hex digits (0 => zero) */
    static const unsigned int lo[] = { 0, 0x1, 0x10, 0x100, 0x1000 };
    static const unsigned int hi[] = { 0, 0xf, 0xff, 0xfff, 0xffff };
    unsigned int v;
    if (digits == 0)
        v = 0;
    else if (variant == 0)
        v = lo[digits];
    else if (variant == 1)
        v = hi[digits];
    else
        v = lo[digits] + (rnd() % (hi[digits] - lo[digits] + 1));
    a->in6[g] = htons(v);
}

static void ntop_patterns(int from, int to)
{
    int d[8], g;
    unsigned int variant;
    unsigned long patterns = 0;
    for (d[0] = from; d[0] < to; d[0]++)
     for (d[1] = 0; d[1] < 5; d[1]++)
      for (d[2] = 0; d[2] < 5; d[2]++)
       for (d[3] = 0; d[3] < 5; d[3]++)
        for (d[4] = 0; d[4] < 5; d[4]++)
         for (d[5] = 0; d[5] < 5; d[5]++)
          for (d[6] = 0; d[6] < 5; d[6]++)
           for (d[7] = 0; d[7] < 5; d[7]++) {
               patterns++;
               for (variant = 0; variant < 3; ++variant) {
                   irc_inaddr a;
                   for (g = 0; g < 8; ++g)
                       fill_group(&a, g, d[g], variant);
                   check_ntop(&a);
               }
           }
    printf("PATTERNS %lu\n", patterns);
}

static void random_addr(irc_inaddr *a)
{
    unsigned int mode = rnd() % 8, g;
    for (g = 0; g < 8; ++g)
        a->in6[g] = htons(rnd() & 0xffff);
    switch (mode) {
    case 0: break;
    case 1: /* sparse */
        for (g = 0; g < 8; ++g) if (rnd() & 1) a->in6[g] = 0;
        break;
    case 2: /* very sparse */
        for (g = 0; g < 8; ++g) if (rnd() % 4) a->in6[g] = 0;
        break;
    case 3: /* mapped */
        memset(a, 0, 10); a->in6[5] = htons(65535);
        if (rnd() % 4 == 0) a->in6[6] = 0;
        if (rnd() % 4 == 0) a->in6[7] = 0;
        break;
    case 4: /* compatible */
        memset(a, 0, 12);
        if (rnd() % 4 == 0) a->in6[6] = 0;
        if (rnd() % 4 == 0) a->in6[7] = 0;
        break;
    case 5: /* small values */
        for (g = 0; g < 8; ++g) a->in6[g] = htons(rnd() % 3);
        break;
    case 6: /* almost mapped */
        memset(a, 0, 10); a->in6[5] = htons(rnd() % 2 ? 65535 : 65534); a->in6[4] = htons(rnd() % 2);
        break;
    default:
        for (g = 0; g < 8; ++g) if (rnd() % 3 == 0) a->in6[g] = htons(rnd() & 0xff);
        break;
    }
}

static void ntop_sizes(unsigned long count)
{
    unsigned long ii;
    for (ii = 0; ii < count; ++ii) {
        irc_inaddr a;
        unsigned int sz, full;
        char ref[IRC_NTOP_MAX + 8];
        random_addr(&a);
        full = irc_ntop(ref, sizeof(ref), &a);
        for (sz = 1; sz <= IRC_NTOP_MAX; ++sz) {
            char *out = malloc(sz);
            unsigned int len;
            memset(out, 0x55, sz);
            len = irc_ntop(out, sz, &a);
            n_eval++;
            if (len != full)
                viol("ntop-size-retval", "%s: out_size %u returns %u, full text needs %u", hex128(&a), sz, len, full);
            if (memchr(out, '\0', sz) == NULL)
                viol("ntop-size-nul", "%s: out_size %u result not NUL-terminated", hex128(&a), sz);
            else if (strncmp(out, ref, strlen(out)) || (sz > full && strcmp(out, ref)))
                viol("ntop-size-prefix", "%s: out_size %u gives '%s', full text '%s'", hex128(&a), sz, out, ref);
            free(out);
        }
    }
}

/* ---- C13: mask test ------------------------------------------------------ */

static int ref_mask(const irc_inaddr *a, const irc_inaddr *b, unsigned int bits)
{
    /* leading `bits` bits equal, computed bit by bit on the byte view */
    unsigned int ii;
    for (ii = 0; ii < bits; ++ii) {
        unsigned int byte = ii / 8, bit = 7 - (ii % 8);
        if (((a->in6_8[byte] >> bit) & 1) != ((b->in6_8[byte] >> bit) & 1))
            return 0;
    }
    return 1;
}

static unsigned long n_mask_true, n_mask_false;

static void check_mask(const irc_inaddr *a, const irc_inaddr *b, unsigned int bits)
{
    /* exact-size heap copies */
    irc_inaddr *ha = malloc(sizeof(*ha)), *hb = malloc(sizeof(*hb));
    int got, want;
    *ha = *a; *hb = *b;
    got = !!irc_check_mask(ha, hb, bits);
    want = ref_mask(a, b, bits);
    n_eval++;
    if (want) n_mask_true++; else n_mask_false++;
    if (got != want)
        viol("mask-test", "irc_check_mask(%s, %s, %u) = %d, leading bits equal: %d", hex128(a), hex128(b), bits, got, want);
    free(ha); free(hb);
}

static void mask_exhaust(int group)
{
    irc_inaddr base, other;
    unsigned int bits, diff, g;
    for (g = 0; g < 8; ++g)
        base.in6[g] = htons(0x1234 + 0x1111 * g);
    /* one allocation pair reused: the exact-size property is covered by check_mask in the random part */
    for (bits = 0; bits <= 128; ++bits) {
        for (diff = 0; diff < 65536; ++diff) {
            int got, want;
            other = base;
            other.in6[group] = htons(ntohs(base.in6[group]) ^ diff);
            got = !!irc_check_mask(&other, &base, bits);
            want = ref_mask(&other, &base, bits);
            n_eval++;
            if (want) n_mask_true++; else n_mask_false++;
            if (got != want) {
                viol("mask-test", "irc_check_mask(%s, %s, %u) = %d, leading bits equal: %d", hex128(&other), hex128(&base), bits, got, want);
                if (n_viol > 25)
                    return;
            }
        }
    }
}

static void mask_random(unsigned long count)
{
    unsigned long ii;
    for (ii = 0; ii < count; ++ii) {
        irc_inaddr a, b;
        unsigned int bits = rnd() % 129, g, mode = rnd() % 6;
        random_addr(&a);
        b = a;
        switch (mode) {
        case 0: /* single bit flip anywhere */
            g = rnd() % 128;
            b.in6_8[g / 8] ^= 1u << (7 - g % 8);
            break;
        case 1: /* flip exactly at / next to the boundary */
            if (bits > 0 && bits <= 128) {
                g = bits - 1 + (rnd() % 3) - 1;
                if (g < 128)
                    b.in6_8[g / 8] ^= 1u << (7 - g % 8);
            }
            break;
        case 2: /* multi-group difference */
            for (g = 0; g < 8; ++g) if (rnd() % 3 == 0) b.in6[g] ^= htons(rnd() & 0xffff);
            break;
        case 3: /* equal */
            break;
        case 4: /* differences only after the prefix */
            for (g = bits; g < 128; ++g) if (rnd() & 1) b.in6_8[g / 8] ^= 1u << (7 - g % 8);
            break;
        default:
            random_addr(&b);
            break;
        }
        check_mask(&a, &b, bits);
        /* group boundaries deserve extra weight */
        if ((ii & 7) == 0) {
            unsigned int k = (rnd() % 9) * 16;
            check_mask(&a, &b, k);
            if (k + 1 <= 128) check_mask(&a, &b, k + 1);
            if (k > 0) check_mask(&a, &b, k - 1);
        }
    }
}

/* ---- C13: parsing ---------------------------------------------------------- */

static unsigned long n_libc_both;
static unsigned long n_trailing_libc;
static int also_ntop;

/* Run irc_pton in all four modes on an exact-size copy; compare with libc where both accept a plain address. */
static void check_string(const char *s, size_t len)
{
    int mode;
    unsigned int res[4];
    irc_inaddr out[4];
    unsigned int bits[4];

    for (mode = 0; mode < 4; ++mode) {
        char *in = exact(s, len);
        irc_inaddr *addr = malloc(sizeof(*addr));
        unsigned int *pb = (mode & 1) ? malloc(sizeof(*pb)) : NULL;
        if (pb) *pb = 0xdeadbeef;
        memset(addr, 0xAA, sizeof(*addr));
        res[mode] = irc_pton(addr, pb, in, (mode & 2) ? 1 : 0);
        out[mode] = *addr;
        bits[mode] = pb ? *pb : 0;
        n_eval++;
        if (res[mode] > len)
            viol("pton-consumed", "irc_pton('%s') mode %d claims %u characters of %zu", s, mode, res[mode], len);
        /* (a prefix length above 128 for a non-documented text is not judged: the statement only asks
         * that such strings are rejected or parsed without stray memory accesses) */
        free(pb);
        free(addr);
        free(in);
    }
    /* with trailing text allowed and no prefix length asked for, the characters the parser claims are a text of their own: where
     * that text is a plain address for the C library too, both must have read the same address */
    if (res[2] > 0 && res[2] <= len) {
        char *pre = exact(s, res[2]);    /* NUL-terminated copy of the claimed characters */
        irc_inaddr libc;
        int ok = 0;
        if (!isspace((unsigned char)pre[0]) && !strchr(pre, '/') && !strchr(pre, '*')) {
            if (strchr(pre, ':'))
                ok = inet_pton(AF_INET6, pre, &libc) == 1;
            else if (strchr(pre, '.')) {
                struct in_addr a4;
                ok = inet_pton(AF_INET, pre, &a4) == 1;
                memset(&libc, 0, sizeof(libc));
                libc.in6[5] = htons(65535);
                memcpy(&libc.in6[6], &a4, 4);
            }
        }
        if (ok) {
            n_trailing_libc++;
            if (memcmp(&libc, &out[2], sizeof(libc)))
                viol("pton-trailing-libc-disagree", "'%s' with trailing text allowed: irc_pton claims the first %u characters and reads %s, inet_pton reads those characters as %s",
                     s, res[2], hex128(&out[2]), hex128(&libc));
        }
        free(pre);
    }
    if (res[0]) n_accept++; else n_reject++;
    /* C12: an accepted plain address must print to a text that is a fixed point of parse+print */
    if (also_ntop && res[0] == len && len > 0)
        check_ntop(&out[0]);
    /* plain address accepted by both parsers => same value */
    if (res[0] == len && len > 0 && !isspace((unsigned char)s[0])) {
        irc_inaddr libc;
        int ok = 0;
        if (strchr(s, ':'))
            ok = inet_pton(AF_INET6, s, &libc) == 1;
        else if (strchr(s, '.')) {
            struct in_addr a4;
            ok = inet_pton(AF_INET, s, &a4) == 1;
            memset(&libc, 0, sizeof(libc));
            libc.in6[5] = htons(65535);
            memcpy(&libc.in6[6], &a4, 4);
        }
        if (ok) {
            n_libc_both++;
            /* a plain address used as a mask means "exactly this address": all 128 bits */
            if (res[1] == len && bits[1] != 128)
                viol("pton-plain-bits", "plain address '%s' yields a prefix length of %u bits, not 128", s, bits[1]);
            if (memcmp(&libc, &out[0], sizeof(libc)))
                viol("pton-libc-disagree", "'%s': irc_pton reads %s, inet_pton reads %s", s, hex128(&out[0]), hex128(&libc));
            else
                n_agree++;
        }
    }
    (void)bits;
}

/* grammar-derived mask strings with independently computed expectations */
static void check_expect(const char *s, unsigned int want_bits, const irc_inaddr *want_net, int must_accept)
{
    char *in = exact(s, strlen(s));
    irc_inaddr *addr = malloc(sizeof(*addr));
    unsigned int *pb = malloc(sizeof(*pb));
    unsigned int len;
    *pb = 0xdeadbeef;
    len = irc_pton(addr, pb, in, 0);
    n_eval++;
    if (must_accept) {
        if (len != strlen(s))
            viol("pton-mask-reject", "documented mask form '%s' not accepted (consumed %u)", s, len);
        else {
            n_accept++;
            if (*pb != want_bits)
                viol("pton-mask-bits", "'%s' yields %u bits, documented meaning is %u", s, *pb, want_bits);
            else {
                /* network bits: compare the leading want_bits bits */
                if (!ref_mask(addr, want_net, want_bits))
                    viol("pton-mask-net", "'%s' yields network %s, expected %s/%u", s, hex128(addr), hex128(want_net), want_bits);
                /* and the mask test built on it must accept an address inside and reject one outside */
                {
                    irc_inaddr in_net = *want_net, out_net = *want_net;
                    unsigned int g;
                    for (g = want_bits; g < 128; ++g) if (rnd() & 1) in_net.in6_8[g / 8] ^= 1u << (7 - g % 8);
                    if (!irc_check_mask(&in_net, addr, *pb))
                        viol("pton-mask-match", "'%s': address %s inside the network does not match", s, hex128(&in_net));
                    if (want_bits > 0) {
                        g = rnd() % want_bits;
                        out_net.in6_8[g / 8] ^= 1u << (7 - g % 8);
                        if (irc_check_mask(&out_net, addr, *pb))
                            viol("pton-mask-match", "'%s': address %s outside the network matches", s, hex128(&out_net));
                    }
                }
            }
        }
    } else if (len == strlen(s) && len)
        viol("pton-accept-bad", "'%s' accepted although it is not an address or mask", s);
    else
        n_reject++;
    free(pb); free(addr); free(in);
}

/* hex digits may be written in either case: a third of the grammar-derived texts are handed over with A-F in capitals */
static void check_expect_anycase(const char *s, unsigned int want_bits, const irc_inaddr *want_net, int must_accept)
{
    char tmp[160];
    size_t ii;
    snprintf(tmp, sizeof(tmp), "%s", s);
    if (rnd() % 3 == 0)
        for (ii = 0; tmp[ii]; ++ii)
            if (tmp[ii] >= 'a' && tmp[ii] <= 'f')
                tmp[ii] = (char)(tmp[ii] - 'a' + 'A');
    check_expect(tmp, want_bits, want_net, must_accept);
}
#define check_expect check_expect_anycase

static void pton_grammar(unsigned long count)
{
    unsigned long ii;
    char buf[128];
    for (ii = 0; ii < count; ++ii) {
        irc_inaddr net;
        unsigned int kind = rnd() % 11, a = rnd() & 255, b = rnd() & 255, c = rnd() & 255, d = rnd() & 255, n, g, k;
        memset(&net, 0, sizeof(net));
        switch (kind) {
        case 0: /* a.b.c.d/n */
            n = rnd() % 33;
            /* a prefix length is a decimal number, also when it is written with leading zeros */
            sprintf(buf, (rnd() % 4) ? "%u.%u.%u.%u/%u" : (rnd() & 1) ? "%u.%u.%u.%u/%02u" : "%u.%u.%u.%u/%03u", a, b, c, d, n);
            net.in6[5] = htons(65535); net.in6_8[12] = a; net.in6_8[13] = b; net.in6_8[14] = c; net.in6_8[15] = d;
            check_expect(buf, 96 + n, &net, 1);
            break;
        case 1: /* a.b.* , a.* , a.b.c.* */
            k = 1 + rnd() % 3;
            net.in6[5] = htons(65535); net.in6_8[12] = a;
            if (k == 1) sprintf(buf, "%u.*", a);
            else if (k == 2) { sprintf(buf, "%u.%u.*", a, b); net.in6_8[13] = b; }
            else { sprintf(buf, "%u.%u.%u.*", a, b, c); net.in6_8[13] = b; net.in6_8[14] = c; }
            check_expect(buf, 96 + 8 * k, &net, 1);
            break;
        case 2: /* x:y::/n */
            k = 1 + rnd() % 6;
            n = rnd() % 129;
            buf[0] = '\0';
            for (g = 0; g < k; ++g) {
                unsigned int v = rnd() & 0xffff;
                if (g == 0 && v == 0) v = 0x2001;
                net.in6[g] = htons(v);
                sprintf(buf + strlen(buf), "%x:", v);
            }
            sprintf(buf + strlen(buf), (rnd() % 4) ? ":/%u" : (rnd() & 1) ? ":/%03u" : ":/%04u", n);
            check_expect(buf, n, &net, 1);
            break;
        case 3: /* x:y:* */
            k = 1 + rnd() % 7;
            buf[0] = '\0';
            for (g = 0; g < k; ++g) {
                unsigned int v = rnd() & 0xffff;
                if (g == 0 && v == 0) v = 0x2001;
                net.in6[g] = htons(v);
                sprintf(buf + strlen(buf), "%x:", v);
            }
            strcat(buf, "*");
            check_expect(buf, 16 * k, &net, 1);
            break;
        case 4: /* * */
            strcpy(buf, "*");
            check_expect(buf, 0, &net, 1);
            break;
        case 5: /* full v6 / n */
            n = rnd() % 129;
            buf[0] = '\0';
            for (g = 0; g < 8; ++g) {
                unsigned int v = 1 + (rnd() & 0xfffe);
                net.in6[g] = htons(v);
                sprintf(buf + strlen(buf), g ? ":%x" : "%x", v);
            }
            sprintf(buf + strlen(buf), "/%u", n);
            check_expect(buf, n, &net, 1);
            break;
        case 8: { /* plain mixed notation: v6 prefix with "::" and an embedded dotted quad => 128 bits */
            unsigned int pre = rnd() % 3;
            if (pre == 0) { sprintf(buf, "::ffff:%u.%u.%u.%u", a, b, c, d); net.in6[5] = htons(65535); }
            else if (pre == 1) { sprintf(buf, "64:ff9b::%u.%u.%u.%u", a, b, c, d); net.in6[0] = htons(0x64); net.in6[1] = htons(0xff9b); }
            else { sprintf(buf, "0:0:0:0:0:ffff:%u.%u.%u.%u", a, b, c, d); net.in6[5] = htons(65535); }
            net.in6_8[12] = a; net.in6_8[13] = b; net.in6_8[14] = c; net.in6_8[15] = d;
            check_expect(buf, 128, &net, 1);
            break;
        }
        case 7: /* a.b/n, a.b.c/n: "missing trailing bits, as in 192.168/16" (iauth.h) - the octets given are the leading ones */
            k = 2 + rnd() % 2;
            n = rnd() % 33;
            net.in6[5] = htons(65535); net.in6_8[12] = a; net.in6_8[13] = b;
            if (k == 2) sprintf(buf, "%u.%u/%u", a, b, n);
            else { sprintf(buf, "%u.%u.%u/%u", a, b, c, n); net.in6_8[14] = c; }
            check_expect(buf, 96 + n, &net, 1);
            break;
        case 10: /* x:y/n, x:y:z/n: the IPv6 spelling of "missing trailing bits" - the groups given are the leading ones */
            k = 2 + rnd() % 6;        /* (one group alone has no colon and is not an IPv6 text) */
            n = rnd() % (16 * k + 1);
            buf[0] = '\0';
            for (g = 0; g < k; ++g) {
                unsigned int v = rnd() & 0xffff;
                if (g == 0 && v == 0) v = 0x2001;
                net.in6[g] = htons(v);
                sprintf(buf + strlen(buf), g ? ":%x" : "%x", v);
            }
            sprintf(buf + strlen(buf), "/%u", n);
            check_expect(buf, n, &net, 1);
            break;
        case 6: /* plain dotted quad => 128 bits */
            sprintf(buf, "%u.%u.%u.%u", a, b, c, d);
            net.in6[5] = htons(65535); net.in6_8[12] = a; net.in6_8[13] = b; net.in6_8[14] = c; net.in6_8[15] = d;
            check_expect(buf, 128, &net, 1);
            break;
        default: /* out of range masks: the statement does not demand rejection, only that an
                  * accepted text never yields more than 128 bits (checked inside check_string) */
            if (rnd() & 1) sprintf(buf, "%u.%u.%u.%u/%u", a, b, c, d, 33 + rnd() % 200);
            else sprintf(buf, "%x::/%u", 1 + (rnd() & 0xfffe), 129 + rnd() % 200);
            check_string(buf, strlen(buf));
            break;
        }
    }
}

#undef check_expect
static const char alphabet[] = "019afF:./*";

static void pton_strings_rec(char *buf, int pos, int maxlen)
{
    unsigned int ii;
    check_string(buf, pos);
    if (pos == maxlen)
        return;
    for (ii = 0; alphabet[ii]; ++ii) {
        buf[pos] = alphabet[ii];
        buf[pos + 1] = '\0';
        pton_strings_rec(buf, pos + 1, maxlen);
    }
    buf[pos] = '\0';
}

static const char *seeds[] = {
    "127.0.0.1", "1.2.3.4/24", "255.255.255.255", "10.*", "192.168.*", "1.2.3.*", "::", "::1", "1::", "::ffff:1.2.3.4",
    "::1.2.3.4", "2001:db8::/32", "fe80::1/64", "1:2:3:4:5:6:7:8", "1:2:3:4:5:6:7:8/128", "1:2:3:4:5:6:1.2.3.4", "a:b:*",
    "*", "***", "0::", "0::1", "1:0:0:2::", "ffff:ffff:ffff:ffff:ffff:ffff:ffff:ffff", "1.2.3.4.5", "1.2.3.4.5.6.7.8",
    "1::2::3", ":1", "1:", "1.2.3", "1.2.3.4/33", "::/0", "::/129", "1:2:3:4:5:6:7::", "::2:3:4:5:6:7:8", "1::8/127",
    "1:2:3:4:5:6:7:1.2.3.4", "::ffff:1.2.3.4/120", "::ffff:10.1.2.0", "64:ff9b::192.0.2.1", "0:0:0:0:0:ffff:1.2.3.4", "::ffff:10.1.2.0/24", "1:2::10.9.8.7", "1.2.3.4/", "1.2.3.4/a", "1.2.*.4", "1..2", ".1.2.3", " 1.2.3.4", "1.2.3.4 ",
    "256.1.1.1", "1.256.1.1", "1.2.3.256", "00000.0.0.1", "1:2:3:4:5:6:7:8:9", "12345::", "g::", "1:2:3:4:5:6:7:8.9", "::1.2.3.4.5",
    "1.2.3.4.5/8", "::.1.2.3", "2001:DB8::/32", "FE80::1/64", "ABCD:EF01:2345:6789:ABCD:EF01:2345:6789", "A:B:*", "::FFFF:1.2.3.4", "1:2:3:4:5:6:7:*", "1:2:3:4:5:6:7:8:*", "1:2:3:4:5:6:7:8/", "::ffff:1.2.3.*", "1.2.3.4.*"
};

static void pton_mutate(unsigned long count)
{
    static const char mut[] = "0123456789abcdefABCDEF:./* xg-+%\t\377";
    unsigned long ii;
    char buf[160];
    for (ii = 0; ii < count; ++ii) {
        const char *s = seeds[rnd() % (sizeof(seeds) / sizeof(seeds[0]))];
        size_t len = strlen(s);
        unsigned int nm = 1 + rnd() % 3, m;
        memcpy(buf, s, len + 1);
        for (m = 0; m < nm; ++m) {
            unsigned int op = rnd() % 5, pos = len ? rnd() % (len + 1) : 0;
            if (op == 0 && len < 120) { /* insert */
                memmove(buf + pos + 1, buf + pos, len - pos + 1);
                buf[pos] = mut[rnd() % (sizeof(mut) - 1)];
                len++;
            } else if (op == 1 && len > 0 && pos < len) { /* delete */
                memmove(buf + pos, buf + pos + 1, len - pos);
                len--;
            } else if (op == 2 && pos < len) { /* replace */
                buf[pos] = mut[rnd() % (sizeof(mut) - 1)];
            } else if (op == 3 && len < 60) { /* append another seed's tail */
                const char *t = seeds[rnd() % (sizeof(seeds) / sizeof(seeds[0]))];
                size_t tl = strlen(t), off = rnd() % (tl + 1);
                memcpy(buf + len, t + off, tl - off + 1);
                len += tl - off;
            } else if (op == 4 && len < 100 && pos < len) { /* duplicate a run */
                unsigned int run = 1 + rnd() % 6;
                if (pos + run > len) run = len - pos;
                memmove(buf + pos + run, buf + pos, len - pos + 1);
                len += run;
            }
        }
        check_string(buf, len);
    }
}

#ifdef H_ADDR_FUZZ
/* libFuzzer entry (thorough tier of C12/C13): the same oracle as pton-strings, on coverage-guided inputs */
int LLVMFuzzerTestOneInput(const unsigned char *data, size_t size)
{
    static int init;
    char buf[128];
    size_t len;
    if (!init) {
        init = 1;
        setvbuf(stdout, NULL, _IOLBF, 0);
        my_ctype_init();
        also_ntop = 1;
        rng_state = 0x9E3779B97F4A7C15ull;
    }
    if (size >= sizeof(buf))
        size = sizeof(buf) - 1;
    memcpy(buf, data, size);
    buf[size] = '\0';
    len = strlen(buf);
    check_string(buf, len);
    return 0;
}
#define main h_addr_main
#endif
int main(int argc, char *argv[])
{
    setvbuf(stdout, NULL, _IOLBF, 0);
    my_ctype_init();
    also_ntop = getenv("H_ADDR_NTOP") != NULL;
    rng_state = 0x9E3779B97F4A7C15ull;
    if (argc < 2)
        return 3;
    if (!strcmp(argv[1], "ntop-patterns") && argc >= 4) {
        ntop_patterns(atoi(argv[2]), atoi(argv[3]));
    } else if (!strcmp(argv[1], "ntop-random") && argc >= 4) {
        unsigned long ii, n = strtoul(argv[3], NULL, 10);
        rng_state ^= strtoul(argv[2], NULL, 10) * 0xD1342543DE82EF95ull;
        for (ii = 0; ii < n; ++ii) {
            irc_inaddr a;
            random_addr(&a);
            check_ntop(&a);
        }
    } else if (!strcmp(argv[1], "ntop-sizes") && argc >= 4) {
        rng_state ^= strtoul(argv[2], NULL, 10) * 0xD1342543DE82EF95ull;
        ntop_sizes(strtoul(argv[3], NULL, 10));
    } else if (!strcmp(argv[1], "mask-exhaust") && argc >= 3) {
        mask_exhaust(atoi(argv[2]));
    } else if (!strcmp(argv[1], "mask-random") && argc >= 4) {
        rng_state ^= strtoul(argv[2], NULL, 10) * 0xD1342543DE82EF95ull;
        mask_random(strtoul(argv[3], NULL, 10));
    } else if (!strcmp(argv[1], "pton-grammar") && argc >= 4) {
        rng_state ^= strtoul(argv[2], NULL, 10) * 0xD1342543DE82EF95ull;
        pton_grammar(strtoul(argv[3], NULL, 10));
    } else if (!strcmp(argv[1], "pton-strings") && argc >= 4) {
        char buf[32];
        int maxlen = atoi(argv[2]), first = atoi(argv[3]);
        if (first < 0) {
            check_string("", 0);
        } else {
            buf[0] = alphabet[first];
            buf[1] = '\0';
            pton_strings_rec(buf, 1, maxlen);
        }
    } else if (!strcmp(argv[1], "pton-mutate") && argc >= 4) {
        rng_state ^= strtoul(argv[2], NULL, 10) * 0xD1342543DE82EF95ull;
        pton_mutate(strtoul(argv[3], NULL, 10));
    } else if (!strcmp(argv[1], "pton-file")) {
        char line[512];
        while (fgets(line, sizeof(line), stdin)) {
            size_t len = strlen(line);
            if (len && line[len - 1] == '\n') line[--len] = '\0';
            check_string(line, len);
        }
    } else if (!strcmp(argv[1], "ntop-file")) {
        char line[512];
        while (fgets(line, sizeof(line), stdin)) {
            irc_inaddr a;
            unsigned int v[8], g;
            if (sscanf(line, "%x:%x:%x:%x:%x:%x:%x:%x", &v[0], &v[1], &v[2], &v[3], &v[4], &v[5], &v[6], &v[7]) != 8)
                continue;
            for (g = 0; g < 8; ++g) a.in6[g] = htons(v[g]);
            check_ntop(&a);
        }
    } else
        return 3;
    printf("STATS evaluations=%lu accepted=%lu rejected=%lu libc_both=%lu libc_agree=%lu mask_true=%lu mask_false=%lu v4_text=%lu v6_text=%lu compressed=%lu leading0=%lu trailing_libc=%lu violations=%lu\n",
           n_eval, n_accept, n_reject, n_libc_both, n_agree, n_mask_true, n_mask_false, n_v4_text, n_v6_text, n_compressed, n_leading0, n_trailing_libc, n_viol);
    return n_viol ? 1 : 0;
}
