/* readfault - LD_PRELOAD shim for C08: transient failures of read()/readv() on fd 0.
 *
 * VERIF_READFAULT="<seed>:<percent>": that share of the calls on fd 0 fail with EINTR or EAGAIN without consuming
 * anything (the data stays in the pipe; a correct event loop simply comes back).  Loaded after the sanitizer runtime
 * (LD_PRELOAD="libasan.so libubsan.so readfault.so"), so the sanitizer's own interceptors call into this one.
 */
#define _GNU_SOURCE
#include <dlfcn.h>
#include <errno.h>
#include <stdio.h>
#include <stdlib.h>
#include <sys/uio.h>
#include <unistd.h>

static unsigned int state, rate;
static int inited;
static unsigned long injected;

static int fault(void)
{
    if (!inited) {
        const char *env = getenv("VERIF_READFAULT");
        inited = 1;
        if (env)
            sscanf(env, "%u:%u", &state, &rate);
    }
    if (!rate)
        return 0;
    state = state * 1103515245u + 12345u;
    if ((state >> 16) % 100 >= rate)
        return 0;
    injected++;
    return ((state >> 8) & 1) ? EINTR : EAGAIN;
}

ssize_t read(int fd, void *buf, size_t count)
{
    static ssize_t (*real)(int, void *, size_t);
    int e;
    if (!real)
        real = (ssize_t (*)(int, void *, size_t))dlsym(RTLD_NEXT, "read");
    if (fd == 0 && (e = fault())) {
        errno = e;
        return -1;
    }
    return real(fd, buf, count);
}

ssize_t readv(int fd, const struct iovec *iov, int iovcnt)
{
    static ssize_t (*real)(int, const struct iovec *, int);
    int e;
    if (!real)
        real = (ssize_t (*)(int, const struct iovec *, int))dlsym(RTLD_NEXT, "readv");
    if (fd == 0 && (e = fault())) {
        errno = e;
        return -1;
    }
    return real(fd, iov, iovcnt);
}

__attribute__((destructor)) static void report(void)
{
    const char *path = getenv("VERIF_READFAULT_LOG");
    if (path) {
        FILE *f = fopen(path, "a");
        if (f) {
            fprintf(f, "%lu\n", injected);
            fclose(f);
        }
    }
}
