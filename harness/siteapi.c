/* siteapi - fixture decision module ("site_api") for the parts of the module interface that no shipped
 * module uses: iauth_set_ip / iauth_set_hostname / iauth_force_username / iauth_trust_username /
 * iauth_weak_username / iauth_user_mode / iauth_challenge / iauth_kill / iauth_quietly_kill /
 * iauth_accept / iauth_soft_done / iauth_send_opers / iauth_set_debug_level / holds and soft holds /
 * iauth_routing + iauth_validate_request / iauth_find_request, and the error / server_info callbacks.
 *
 * It is built against the repository's own headers and loaded by the real daemon next to `iauth`.
 * The driver reaches it through the password line:   <id> P :@<command> [<argument>]
 * Commands are NOT carried out inside the password callback (the core goes on using the request
 * after the callback returns) but from a zero-delay timer, looking the request up again by id and
 * serial - the way iauth.h tells asynchronous handlers to do it.
 *
 * Every callback is counted; `? stats` reports the counters, `? config` the policies asked for
 * ($VERIF_SITE_POLICIES, letters of A R T U W).
 */
#include "modules/iauth.h"

static struct iauth_module site;
static unsigned int n_new, n_disc, n_reg_ircd, n_reg_self, n_err, n_err_req, n_info, n_pre, n_field, n_uinfo, n_pw, n_cmd, n_cmd_stale;

struct pending {
    int client;
    unsigned int serial;
    char cmd[24];
    char arg[600];
};

static void run_pending(evutil_socket_t sock, short events, void *datum)
{
    struct pending *p = datum;
    struct iauth_request *req = iauth_find_request(p->client);
    const char *cmd = p->cmd, *arg = p->arg;

    (void)sock; (void)events;
    if (!req || req->serial != p->serial) {
        n_cmd_stale++;
        free(p);
        return;
    }
    n_cmd++;
    if (!strcmp(cmd, "setip")) {
        union irc_inaddr a;
        if (irc_pton(&a, NULL, arg, 0))
            iauth_set_ip(req, &a);
    } else if (!strcmp(cmd, "sethost"))
        iauth_set_hostname(req, arg);
    else if (!strcmp(cmd, "force"))
        iauth_force_username(req, arg);
    else if (!strcmp(cmd, "trust"))
        iauth_trust_username(req, arg);
    else if (!strcmp(cmd, "weak"))
        iauth_weak_username(req, arg);
    else if (!strcmp(cmd, "mode")) {
        if (arg[0] == '+' || arg[0] == '-')
            iauth_user_mode(req, arg);
    } else if (!strcmp(cmd, "challenge"))
        iauth_challenge(req, arg);
    else if (!strcmp(cmd, "kill"))
        iauth_kill(req, arg);
    else if (!strcmp(cmd, "qkill"))
        iauth_quietly_kill(req, arg);
    else if (!strcmp(cmd, "accept"))
        iauth_accept(req);
    else if (!strcmp(cmd, "soft"))
        iauth_soft_done(req);
    else if (!strcmp(cmd, "opers"))
        iauth_send_opers(arg);
    else if (!strcmp(cmd, "debug"))
        iauth_set_debug_level(atoi(arg));
    else if (!strcmp(cmd, "hold"))
        req->holds++;
    else if (!strcmp(cmd, "release")) {
        if (req->holds > 0)
            req->holds--;
        iauth_check_request(req);
    } else if (!strcmp(cmd, "softhold"))
        req->soft_holds++;
    else if (!strcmp(cmd, "softrelease")) {
        if (req->soft_holds > 0)
            req->soft_holds--;
        iauth_check_request(req);
    } else if (!strcmp(cmd, "account")) {
        snprintf(req->account, sizeof(req->account), "%s", arg);
    } else if (!strcmp(cmd, "class")) {
        snprintf(req->class, sizeof(req->class), "%s", arg);
    } else if (!strcmp(cmd, "routing")) {
        char tag[ROUTINGLEN + 8], msg[128];
        int rc = iauth_routing(req, tag, sizeof(tag));
        struct iauth_request *back = rc ? NULL : iauth_validate_request(tag);
        snprintf(msg, sizeof(msg), "routing rc=%d tag=%s back=%s", rc, tag, back == req ? "same" : back ? "OTHER" : "none");
        iauth_send_opers(msg);
    }
    free(p);
}

static void site_password(struct iauth_request *req, const char password[])
{
    static const struct timeval zero = { 0, 0 };
    struct pending *p;
    const char *sp;
    size_t len;

    n_pw++;
    if (password[0] != '@')
        return;
    p = calloc(1, sizeof(*p));
    p->client = req->client;
    p->serial = req->serial;
    sp = strchr(password, ' ');
    len = sp ? (size_t)(sp - password - 1) : strlen(password + 1);
    if (len >= sizeof(p->cmd))
        len = sizeof(p->cmd) - 1;
    memcpy(p->cmd, password + 1, len);
    if (sp)
        snprintf(p->arg, sizeof(p->arg), "%s", sp + 1);
    event_base_once(ev_base, -1, EV_TIMEOUT, run_pending, p, &zero);
}

static void site_new_client(struct iauth_request *req) { (void)req; n_new++; }
static void site_disconnect(struct iauth_request *req) { (void)req; n_disc++; }
static void site_registered(struct iauth_request *req, int from_ircd) { (void)req; if (from_ircd) n_reg_ircd++; else n_reg_self++; }
static void site_error(struct iauth_request *req, const char type[], const char info[]) { (void)type; (void)info; n_err++; if (req) n_err_req++; }
static void site_server_info(const char server[], int capacity) { (void)server; (void)capacity; n_info++; }
static void site_pre_registered(struct iauth_request *req) { (void)req; n_pre++; }
static void site_field_change(struct iauth_request *req, enum iauth_flags flag) { (void)req; (void)flag; n_field++; }
static void site_user_info(struct iauth_request *req) { (void)req; n_uinfo++; }

static void site_get_stats(void)
{
    iauth_report_stats(&site, "new %u disc %u reg %u+%u err %u/%u info %u pre %u field %u uinfo %u pw %u cmd %u+%u",
                       n_new, n_disc, n_reg_ircd, n_reg_self, n_err, n_err_req, n_info, n_pre, n_field, n_uinfo, n_pw, n_cmd, n_cmd_stale);
}

static void site_get_config(void)
{
    const char *pol = getenv("VERIF_SITE_POLICIES");
    iauth_report_config(&site, "policies %s", pol ? pol : "");
}

void module_constructor(const char name[])
{
    const char *pol = getenv("VERIF_SITE_POLICIES");

    site.owner = name;
    site.disconnect = site_disconnect;
    site.error = site_error;
    site.field_change = site_field_change;
    site.get_config = site_get_config;
    site.get_stats = site_get_stats;
    site.new_client = site_new_client;
    site.password = site_password;
    site.pre_registered = site_pre_registered;
    site.registered = site_registered;
    site.server_info = site_server_info;
    site.user_info = site_user_info;
    for (; pol && *pol; ++pol) {
        switch (*pol) {
        case 'A': BITSET_SET(site.policies, IAUTH_SEND_USER_AND_PASS); break;
        case 'R': BITSET_SET(site.policies, IAUTH_PRIOR_APPROVAL); break;
        case 'T': BITSET_SET(site.policies, IAUTH_APPROVAL_DIAGNOSTICS); break;
        case 'U': BITSET_SET(site.policies, IAUTH_SEND_NICKNAME_ETC); break;
        case 'W': BITSET_SET(site.policies, IAUTH_EXTRA_TIME); break;
        }
    }
    module_depends("iauth", NULL);
    iauth_register_module(&site);
}

void module_destructor(void)
{
    iauth_unregister_module(&site);
}
