"""Trace monitors for the protocol properties (C01-C06, C09-C11): pure functions trace -> violations.

The model below is driven by the *input* events (what the server told the
daemon) and by the daemon's own output lines; every rule is a statement about
what may / must appear on stdout in a given step.  See DESIGN.md section 4.
"""
import re

import classmodel
import proto


class Inst(object):
    def __init__(self, cid, k, ev):
        self.id = cid
        self.k = k
        self.ip = ev["ip"]
        self.port = ev["port"]
        self.addr = proto.announced_value(ev["ip"])      # octets may carry leading zeros; "ANY" for a text that denotes no address
        self.serial = None
        self.host = None
        self.hostres = False
        self.identline = False
        self.identknown = False
        self.emptyident = False
        self.ident = ""
        self.nick = None
        self.user = None
        self.real = None
        self.userinfo = False
        self.hurry = False
        self.pw = None
        self.modes = set()
        self.more_pending = set()
        self.awaiting = set()
        self.queried = {}
        self.timeout_fired = False
        self.query_after_timeout = False
        self.ok_from = set()
        self.accounts = []
        self.refused = False
        self.softdone = 0
        self.born = None
        self.cred_sent = {}


class V(object):
    def __init__(self, prop, rule, text, step, sig=None):
        self.prop, self.rule, self.text, self.step = prop, rule, text, step
        self.sig = sig or rule

    def __repr__(self):
        return "%s/%s@%s: %s" % (self.prop, self.rule, self.step, self.text)


def query_username(inst):
    if inst.ident:
        return inst.ident[:10]
    if inst.user:
        if inst.user.startswith("~"):
            return inst.user[:10]
        return ("~" + inst.user)[:10]
    return ""


class Monitor(object):
    def __init__(self, trace):
        self.tr = trace
        self.cfg = trace.config
        if len(self.cfg.services) > 32:
            # the per-client service masks have 32 bits: a freshly started daemon configures the first 32 names (in the
            # configuration's own order, case-insensitive by name) and refuses the rest with an error message
            eff = sorted(self.cfg.services, key=lambda x: x[0].lower())[:32]
            self.cfg = proto.Config(eff, self.cfg.timeout, self.cfg.rules, self.cfg.use_class)
        self.viol = []
        self.open = {}
        self.k_of = {}
        self.serials = {}
        self.stats = {"verdicts": 0, "accepts": 0, "kills": 0, "softdones": 0, "queries": 0, "replies_effective": 0,
                      "replies_stray": 0, "timeouts_effective": 0, "reannounce_live": 0, "post_close_replies": 0,
                      "stats_checks": 0, "instances": 0, "challenge_responses": 0, "accept_checks_with_await_history": 0,
                      "plus_bang_instances": 0, "class_decisions": 0, "relays": 0, "lines": 0, "client_lines": 0,
                      "stuck_evaluations": 0, "wellformed_passwords": 0, "malformed_passwords": 0, "trusted_usernames": 0}
        pol = ""
        for ln in trace.banner:
            m = re.match(r"^O S?([A-Z]*)$", ln)
            if m:
                pol = m.group(1)
        self.need_userinfo = "A" in pol
        self.need_nick_ident = "U" in pol
        self.policy = pol
        self.closed_ids = {}     # id -> reason of last close
        # protocol of every service name ever configured in this history (a service retired by a reload still owes
        # its answers to the clients that were asked; generators never give one name two protocols)
        self.protos = {n: p for n, p in self.cfg.services}
        self.stats["reloads"] = 0
        self.stats["instances_crossing_reload"] = 0

    def proto_of(self, svc):
        return self.protos.get(svc)

    def v(self, prop, rule, text, sig=None):
        self.viol.append(V(prop, rule, text, self.idx, sig))

    # ---- helpers ------------------------------------------------------------
    def data_ok(self, i):
        if i.hurry:
            return True
        return i.hostres and (not self.need_userinfo or i.userinfo) and (not self.need_nick_ident or (i.nick is not None and i.identline))

    def prereq(self, i, protoname, part=None):
        """Are the prerequisites of a protocol (or of one half of 'combined') met?"""
        drone = (i.hostres and i.identknown and i.nick is not None and i.userinfo) or i.hurry
        if protoname == "login":
            return i.pw is not None
        if protoname == "login-ipr":
            return i.pw is not None and ((i.hostres and i.identknown) or i.hurry)
        if protoname == "dronecheck":
            return drone
        if protoname == "combined":
            if part == "LOGIN":
                return drone and i.pw is not None
            return drone
        return False

    def expected_query(self, i, protoname, verb, actual=None):
        """The query text the client's own data gives.  The address is compared by value:
        whatever address text the daemon wrote is kept if it denotes the announced address."""
        A = "\0ADDR\0"
        host = i.host if i.host else A
        if verb == "CHECK":
            want = "CHECK %s %s %s %s :%s" % (i.nick or "", query_username(i), A, host, i.real or "")
        elif verb == "LOGIN":
            want = "LOGIN %s" % (i.pw or "")
        elif verb == "LOGIN2":
            want = "LOGIN2 %s %s %s %s" % (A, host, query_username(i), i.pw or "")
        else:
            return None
        if A in want:
            if actual is not None:
                rx = "^" + re.escape(want).replace(re.escape(A), "([0-9a-fA-F:.]+)") + "$"
                m = re.match(rx, actual, re.S)
                if m and all((proto.addr_value(g) == i.addr or (i.addr == "ANY" and proto.addr_value(g) is not None)) for g in m.groups()) and len(set(m.groups())) == 1:
                    return actual
            want = want.replace(A, i.ip)
        return want

    def close(self, cid, reason):
        i = self.open.pop(cid, None)
        if i is not None:
            self.closed_ids[cid] = reason
        return i

    # ---- main loop -----------------------------------------------------------
    def run(self):
        self.idx = -1
        for ln in self.tr.banner:
            self.check_line_grammar(ln)
        for idx, (ev, out) in enumerate(self.tr.steps):
            self.idx = idx
            self.ev = ev
            self.step_ctx = {"stray": False, "expect_kill": None, "expect_C": [], "expect_M": None, "more_targets": set(),
                             "wellformed_pw_for": None, "step_queried": set(), "target": None, "saw_C": [], "saw_M": [],
                             "saw_verdict": {}, "saw_U": [], "expect_unlinked_notice": None, "decided_now": [], "named": set()}
            self.apply_input(ev)
            for ln in out:
                if ln.startswith("#unterminated "):
                    self.v("C09", "unterminated", "the daemon wrote %r... without a terminating newline (the next line is glued to it)" % ln[14:134])
                    ln = ln[14:]
                if ln.startswith("#verif"):
                    continue
                self.stats["lines"] += 1
                self.on_output(ln)
            self.end_of_step()
        return self.viol

    # ---- input ------------------------------------------------------------------
    def apply_input(self, ev):
        t = ev["t"]
        ctx = self.step_ctx
        cid = ev.get("id")
        i = self.open.get(cid) if cid is not None else None
        if t == "announce":
            if cid in self.open:
                self.stats["reannounce_live"] += 1
                self.close(cid, "replaced")
            k = self.k_of.get(cid, 0) + 1
            self.k_of[cid] = k
            n = Inst(cid, k, ev)
            n.born = self.idx
            self.open[cid] = n
            self.stats["instances"] += 1
            ctx["target"] = n
            return
        if t in ("disconnect", "registered"):
            self.close(cid, t)
            return
        if t == "reload":
            # SIGUSR1 with a new file: later clients are served by the new table / rules.  Clients that are in the middle of
            # their registration are outside what C06 / C17 say about which services are asked (recorded assumption):
            # their queries are still tracked (answers are owed), but not judged for timing.
            mods_ = getattr(self.cfg, "modules", None)
            self.cfg = proto.Config([tuple(x) for x in ev["services"]], ev["timeout"] if "timeout" in ev else self.cfg.timeout,
                                    ev["rules"] if ev.get("rules") is not None else self.cfg.rules, self.cfg.use_class)
            self.cfg.modules = mods_
            for n, p in self.cfg.services:
                self.protos.setdefault(n, p)
            self.stats["reloads"] += 1
            now_ = set(n for n, _ in self.cfg.services)
            for inst in self.open.values():
                # an OK from a service that is taken out of the file (or re-spelled) stops counting, also if it comes back later
                inst.ok_exact = set(x for x in getattr(inst, "ok_exact", set()) if x in now_)
                inst.ok_from = set(x.lower() for x in inst.ok_exact)
            for inst in self.open.values():
                if not getattr(inst, "crossed_reload", False):
                    inst.crossed_reload = True
                    self.stats["instances_crossing_reload"] += 1
            return
        if t in ("reply", "unlinked"):
            self.apply_reply(ev)
            return
        if t == "stats":
            ctx["stats"] = True
            return
        if i is None:
            return
        ctx["target"] = i
        # what each protocol's prerequisites looked like before this event (see the end-of-step rule for instances that crossed a reload)
        ctx["prereq_before"] = dict((p_, self.prereq(i, p_)) for p_ in proto.PROTOS)
        if t == "host":
            if not i.host:
                i.host = ev["name"][:63]
                i.hostres = True
        elif t == "nohost":
            i.hostres = True
        elif t == "ident":
            i.identline = True
            if ev.get("name"):
                i.ident = ev["name"][:10]
                i.identknown = True
            elif i.userinfo:
                i.identknown = True
            else:
                i.emptyident = True
        elif t == "nick":
            i.nick = ev["name"][:30]
        elif t == "userinfo":
            i.user = ev["user"][:10]
            i.real = ev["real"][:50]
            i.userinfo = True
            if i.emptyident:
                i.identknown = True
        elif t == "hurry":
            i.hurry = True
        elif t == "password":
            text = ev["text"]
            # a challenge whose service a reload has meanwhile removed can no longer be answered: it is void, and the line is a password
            i.more_pending = set(s_ for s_ in i.more_pending if self.cfg.proto_of(s_) is not None)
            if i.more_pending and i.pw is not None:
                ctx["more_targets"] = set(i.more_pending)
                ctx["more_text"] = text
                i.more_pending = set()
                self.stats["challenge_responses"] += 1
            else:
                shape = proto.password_shape(text)
                if getattr(self.cfg, "modules", None) == ("iauth",):
                    # the core alone does not read passwords: no service module is loaded that would
                    self.stats["passwords_without_service_module"] = self.stats.get("passwords_without_service_module", 0) + 1
                elif shape:
                    i.modes = proto.apply_modes(i.modes, shape[0])
                    i.pw = shape[1][:511]
                    ctx["wellformed_pw_for"] = i
                    self.stats["wellformed_passwords"] += 1
                    if "!" in i.modes and not getattr(i, "counted_bang", False):
                        i.counted_bang = True
                        self.stats["plus_bang_instances"] += 1
                else:
                    self.stats["malformed_passwords"] += 1
        elif t == "timeout":
            if self.cfg.timeout and not i.timeout_fired:
                i.timeout_fired = True
                self.stats["timeouts_effective"] += 1

    def apply_reply(self, ev):
        ctx = self.step_ctx
        pt = proto.parse_tag(ev["tag"])
        i = None
        if pt:
            cand = self.open.get(pt[0])
            if cand is not None and cand.serial is not None and cand.serial == pt[1]:
                i = cand
        if i is None or ev["svc"] not in i.awaiting:
            ctx["stray"] = True
            self.stats["replies_stray"] += 1
            if pt and pt[0] not in self.open:
                self.stats["post_close_replies"] += 1
            return
        ctx["target"] = i
        svc = ev["svc"]
        protoname = self.proto_of(svc)
        final = False
        if ev["t"] == "unlinked":
            final = True
            if protoname != "dronecheck":
                ctx["expect_unlinked_notice"] = i
        else:
            text = ev["text"]
            if re.match(r"^OK( |$)", text):
                final = True
                # the OK counts for a class rule (xreply_ok) while the service is in the file - as spelled there; one that arrives from a
                # service a reload has removed (the answer was still owed) never does
                if any(n == svc for n, _ in self.cfg.services):
                    i.ok_exact = getattr(i, "ok_exact", set()) | {svc}
                    i.ok_from.add(svc.lower())
                if text.startswith("OK ") and protoname in proto.LOGIN_TYPES:
                    acct = text[3:].split(" ")[0][:64]
                    if acct:
                        i.accounts.append(acct)
                        if i.modes & {"x", "!"}:
                            ctx["expect_M"] = i
            elif text.startswith("NO "):
                final = True
                i.refused = True
                ctx["expect_kill"] = (i, text[3:])
            elif text.startswith("AGAIN "):
                final = True
                ctx["expect_C"].append((i, text[6:]))
            elif text.startswith("MORE "):
                final = True
                i.more_pending.add(svc)
                ctx["expect_C"].append((i, text[5:]))
        if final:
            i.awaiting.discard(svc)
            self.stats["replies_effective"] += 1
        else:
            ctx["junk_reply"] = True

    # ---- output --------------------------------------------------------------------
    def check_line_grammar(self, ln):
        c = proto.classify(ln)
        if c is None:
            self.v("C09", "grammar", "line is not a valid IAuth message: %r" % ln[:200])
        return c

    def on_output(self, ln):
        ctx = self.step_ctx
        c = self.check_line_grammar(ln)
        if c is None:
            return
        if ctx["stray"]:
            self.v("C04", "stray-output", "a stray reply (%s) produced output: %r" % (proto.render(self.ev), ln))
        if c["kind"] == "client":
            self.stats["client_lines"] += 1
            ctx["named"].add(c["id"])
            self.on_client_line(c, ln)
        elif c["kind"] == "xquery":
            pt_ = proto.parse_tag(c["tag"])
            if pt_:
                ctx["named"].add(pt_[0])
            self.on_query(c, ln)
        elif c["kind"] == "global" and c["cmd"] == "S" and ctx.get("stats"):
            m = re.match(r"^iauth :(\d+)-(\d+) reqs alloc, (\d+) in use", c["text"])
            if m:
                self.stats["stats_checks"] += 1
                if int(m.group(3)) != len(self.open):
                    self.v("C10", "in-use", "daemon reports %s requests in use, the server has %d clients announced and not withdrawn/registered/decided (%s)" % (
                        m.group(3), len(self.open), sorted(self.open)[:20]))

    def on_client_line(self, c, ln):
        ctx = self.step_ctx
        cid = c["id"]
        i = self.open.get(cid)
        if i is None:
            why = self.closed_ids.get(cid)
            self.v("C01", "names-closed-client", "line %r names client %d which %s" % (
                ln, cid, ("was closed (%s)" % why) if why else "was never announced"),
                sig="names-closed-client:" + c["cmd"] + (":" + why if why else ":never"))
            return
        # C09: address and port
        if (proto.addr_value(c["addr"]) != i.addr and not (i.addr == "ANY" and proto.addr_value(c["addr"]) is not None)) or c["port"] != i.port:
            self.v("C09", "address", "line %r carries address/port %s %d, client %d was announced as %s %d" % (ln, c["addr"], c["port"], cid, i.ip, i.port))
        i.seen_addr = c["addr"]
        cmd = c["cmd"]
        if cmd == "d":
            i.softdone += 1
            self.stats["softdones"] += 1
            if i.softdone > 1:
                self.v("C01", "second-soft-done", "second soft-done for client %d instance %d" % (cid, i.k))
        elif cmd in "DRk":
            self.stats["verdicts"] += 1
            ctx["saw_verdict"][cid] = (cmd, c["tail"])
            ctx["decided_now"].append(i)
            if cmd == "k":
                self.stats["kills"] += 1
                self.judge_kill(i, c, len(ln))
            else:
                self.stats["accepts"] += 1
                self.judge_accept(i, c, ln)
            self.close(cid, "verdict " + cmd)
        elif cmd == "C":
            ctx["saw_C"].append((i, c["tail"][1:], len(ln)))
        elif cmd == "M":
            ctx["saw_M"].append((i, c["tail"]))
        elif cmd == "U":
            ctx["saw_U"].append((i, c["tail"]))

    def judge_kill(self, i, c, line_len=0):
        ctx = self.step_ctx
        ek = ctx["expect_kill"]
        if ek is None or ek[0] is not i:
            self.v("C05", "kill-unasked", "client %d rejected (%r) although no awaited service refused it in this step" % (i.id, c["tail"]))
        elif c["tail"] != ":" + ek[1] and not same_or_cut(c["tail"][1:], ek[1], line_len):
            self.v("C05", "kill-text", "client %d rejected with %r, the service said %r" % (i.id, c["tail"][1:], ek[1]))

    def judge_accept(self, i, c, ln):
        cmd = c["cmd"]
        # ---- C02
        if not self.data_ok(i):
            missing = [n for n, ok in (("hostname result", i.hostres), ("user info", i.userinfo or not self.need_userinfo),
                                       ("nick", i.nick is not None or not self.need_nick_ident), ("ident", i.identline or not self.need_nick_ident)) if not ok]
            self.v("C02", "accept-missing-data", "client %d accepted (%r) before the server delivered %s and without hurry-up" % (i.id, ln, missing),
                   sig="accept-missing-data")
        if i.awaiting:
            self.stats["accept_checks_with_await_history"] += 1
        if i.awaiting and not i.timeout_fired:
            self.v("C02", "accept-unanswered", "client %d accepted (%r) while the query to %s is unanswered and its timeout has not expired" % (
                i.id, ln, sorted(i.awaiting)), sig="accept-unanswered")
        if "!" in i.modes and cmd == "D":
            self.v("C02", "accept-bang-no-account", "client %d demanded +! and was accepted without an account stamp (%r)" % (i.id, ln))
        if i.refused:
            self.v("C02", "accept-refused", "client %d was refused by a service and accepted anyway (%r)" % (i.id, ln))
        # ---- C05: account
        acct = None
        cls = None
        parts = c["tail"].split(" ") if c["tail"] else []
        if cmd == "R":
            acct = parts[0] if parts else ""
            cls = parts[1] if len(parts) > 1 else None
            if acct not in i.accounts:
                self.v("C05", "account-not-vouched", "client %d accepted with account %r; awaited login-type services vouched %s for this instance" % (
                    i.id, acct, i.accounts), sig="account-not-vouched")
        else:
            cls = parts[0] if parts else None
            if i.accounts:
                self.v("C05", "account-lost", "client %d accepted without a stamp (%r) although a login-type service vouched %s" % (i.id, ln, i.accounts))
        # ---- C05 / C11: class
        current = set(n.lower() for n, _ in self.cfg.services)
        retired_ok = set(s for s in i.ok_from if s not in current)
        if self.cfg.use_class and retired_ok and any((r.get("xreply_ok") or "").lower() in retired_ok for r in self.cfg.rules):
            # a rule asks whether a service said OK that a reload has meanwhile removed from the file: whether such an answer
            # still counts is not something the statements decide - not judged
            self.stats["class_unjudged_retired_service"] = self.stats.get("class_unjudged_retired_service", 0) + 1
        elif self.cfg.use_class:
            self.stats["class_decisions"] += 1
            client = {"account": acct if acct is not None else (i.accounts[-1] if i.accounts else None), "addr": i.addr, "ident": i.ident,
                      "hostname": i.host or "", "ok_services": i.ok_from, "cli_username": i.user or ""}
            want_cls, trusted, rname = classmodel.evaluate(self.cfg.rules, client)
            if want_cls is not None:
                want_cls = want_cls[:62]
            if cls != want_cls:
                self.v("C11", "class", "client %d (account %r, address %s, ident %r, host %r, OK from %s) got class %r, first matching rule in name order is %r giving %r" % (
                    i.id, client["account"], i.ip, i.ident, i.host, sorted(i.ok_from), cls, rname, want_cls))
            sawU = [tail for (ii, tail) in self.step_ctx["saw_U"] if ii is i]
            if trusted is not None:
                self.stats["trusted_usernames"] += 1
                if sawU != [trusted]:
                    self.v("C11", "trust-username", "rule %r trusts the user name: expected 'U %s' for client %d before acceptance, saw %s" % (rname, trusted, i.id, sawU))
            elif sawU:
                self.v("C11", "trust-username-unasked", "client %d got a user name upgrade %s but the deciding rule (%r) does not ask for it" % (i.id, sawU, rname))
        elif cls is not None:
            self.v("C05", "class-unexpected", "client %d accepted with class %r but no class module is loaded" % (i.id, cls))

    def on_query(self, c, ln):
        ctx = self.step_ctx
        pt = proto.parse_tag(c["tag"])
        self.stats["queries"] += 1
        if pt is None:
            self.v("C09", "tag", "query with malformed routing tag %r" % ln)
            return
        cid, serial = pt
        i = self.open.get(cid)
        if i is None:
            why = self.closed_ids.get(cid)
            self.v("C01", "query-closed-client", "query %r carries the tag of client %d which %s" % (ln, cid, ("was closed (%s)" % why) if why else "was never announced"),
                   sig="query-closed-client")
            return
        if i.serial is None:
            owner = self.serials.get(serial)
            if owner is not None and owner != (cid, i.k):
                self.v("C01", "serial-reused", "serial %x used for client %d instance %d and for %s" % (serial, cid, i.k, owner))
            i.serial = serial
            self.serials[serial] = (cid, i.k)
        elif i.serial != serial:
            self.v("C01", "serial-changed", "client %d instance %d queried with serial %x after %x" % (cid, i.k, serial, i.serial))
        svc = c["svc"]
        protoname = self.proto_of(svc)
        text = c["text"]
        verb = text.split(" ", 1)[0]
        if protoname is None:
            self.v("C06", "query-unconfigured", "query to a service that is not configured: %r" % ln)
            return
        if getattr(i, "crossed_reload", False):
            # mid-registration across a reload: which services are asked, and when, is not judged; the answer is owed all the same
            if (cid, svc) not in ctx["step_queried"]:
                ctx["step_queried"].add((cid, svc))
                i.queried[svc] = i.queried.get(svc, 0) + 1
            if verb == "MORE":
                # ... except that a challenge response may only go to a service that challenged this very client
                if ctx["target"] is not i or svc not in ctx["more_targets"]:
                    self.v("C06", "more-untimely", "challenge response %r sent to %s, which did not challenge client %d (the client's registration spans a reload)" % (
                        ln, svc, cid), sig="more-untimely:after-reload")
                ctx["more_targets"].discard(svc)
            i.awaiting.add(svc)
            if i.timeout_fired:
                i.query_after_timeout = True
            return
        if self.cfg.proto_of(svc) is None:
            self.v("C06", "query-unconfigured", "query about a client announced after the reload to a service the current file does not list: %r" % ln)
            return
        first_in_step = (cid, svc) not in ctx["step_queried"]
        if verb == "MORE":
            if ctx["target"] is not i or svc not in ctx["more_targets"]:
                self.v("C06", "more-untimely", "challenge response %r sent although %s did not challenge client %d / no response was given" % (ln, svc, cid))
            elif text != "MORE " + ctx.get("more_text", ""):
                self.v("C06", "more-content", "challenge response %r differs from what the client sent (%r)" % (ln, ctx.get("more_text")))
            ctx["more_targets"].discard(svc)
        else:
            allowed = {"login": ("LOGIN",), "login-ipr": ("LOGIN2",), "dronecheck": ("CHECK",), "combined": ("CHECK", "LOGIN")}[protoname]
            if verb not in allowed:
                self.v("C06", "query-verb", "service %s speaks %s but was sent %r" % (svc, protoname, ln))
            else:
                if ctx["target"] is not i:
                    self.v("C07", "query-other-client", "query %r about client %d in a step that concerns %s" % (
                        ln, cid, ("client %d" % ctx["target"].id) if ctx["target"] else "no client"))
                if not self.prereq(i, protoname, verb):
                    self.v("C06", "query-early", "query %r sent before the data protocol %s needs is known (host result %s, ident %s, nick %s, user info %s, password %s, hurry %s)" % (
                        ln, protoname, i.hostres, i.identknown, i.nick is not None, i.userinfo, i.pw is not None, i.hurry), sig="query-early:" + protoname)
                if i.queried.get(svc, 0) >= 1 and first_in_step:
                    if not (ctx["wellformed_pw_for"] is i and protoname != "dronecheck"):
                        self.v("C06", "query-repeated", "service %s queried again about client %d by an event that is not a new password: %r" % (svc, cid, ln),
                               sig="query-repeated:" + protoname)
                want = self.expected_query(i, protoname, verb, text)
                if text != want:
                    self.v("C06", "query-content", "query %r; the client's own data gives %r" % (text, want), sig="query-content:" + verb)
                if verb in ("LOGIN", "LOGIN2"):
                    i.cred_sent[svc] = i.pw if text == want else None
        if first_in_step:
            ctx["step_queried"].add((cid, svc))
            i.queried[svc] = i.queried.get(svc, 0) + 1
        i.awaiting.add(svc)
        if i.timeout_fired:
            i.query_after_timeout = True

    # ---- end of step -------------------------------------------------------------------
    def end_of_step(self):
        ctx = self.step_ctx
        # C05 expectations
        ek = ctx["expect_kill"]
        if ek is not None:
            got = ctx["saw_verdict"].get(ek[0].id)
            if got is None or got[0] != "k":
                self.v("C05", "no-not-honoured", "service refused client %d with %r but the step produced %s" % (ek[0].id, ek[1], got))
        seen_C = list(ctx["saw_C"])
        for (i, text) in ctx["expect_C"]:
            self.stats["relays"] += 1
            hit = [x for x in seen_C if x[0] is i and same_or_cut(x[1], text, x[2])]
            if hit:
                seen_C.remove(hit[0])
            else:
                self.v("C05", "relay-missing", "challenge/retry text %r for client %d was not relayed verbatim in the same step (saw %s)" % (
                    text[:200], i.id, [(a.id, b[:200]) for a, b, _ in ctx["saw_C"]]))
        un = ctx["expect_unlinked_notice"]
        for (i, text, _) in seen_C:
            if un is not None and i is un and text == proto.UNLINKED_TEXT:
                continue
            self.v("C05", "relay-unexpected", "client %d was sent %r which no service asked for" % (i.id, text))
        em = ctx["expect_M"]
        for (i, tail) in ctx["saw_M"]:
            if tail != ":+x":
                self.v("C05", "mode-content", "client %d was sent mode %r" % (i.id, tail))
            if em is None or i is not em:
                self.v("C05", "mode-unexpected", "client %d was sent %r without a fresh account stamp / hiding request" % (i.id, tail))
        if em is not None and not [1 for (i, t) in ctx["saw_M"] if i is em]:
            self.v("C05", "mode-missing", "client %d asked for host hiding (%s) and got an account in this step but no +x was sent" % (em.id, sorted(em.modes)))
        for svc in ctx["more_targets"]:
            if ctx["target"] is not None and ctx["target"].id in self.open and not getattr(ctx["target"], "crossed_reload", False):
                self.v("C06", "more-not-forwarded", "client %d answered the challenge of %s but no MORE query was sent" % (ctx["target"].id, svc))
        # C03 / C06 per open instance
        # an instance's conditions only change in steps that concern it (its own event, a reply
        # addressed to it, or output about it), so only those are re-evaluated
        touched = {}
        if ctx["target"] is not None:
            touched[ctx["target"].id] = ctx["target"]
        for cid in ctx["named"]:
            if cid in self.open:
                touched[cid] = self.open[cid]
        for cid, i in touched.items():
            if self.open.get(cid) is not i:
                continue
            self.stats["stuck_evaluations"] += 1
            crossed = getattr(i, "crossed_reload", False)
            for svc, protoname in self.cfg.services:
                if crossed:
                    # a client that was in the middle of its registration when a reload happened: which of the services it had been
                    # entitled to earlier are asked, and when, is not judged - but a service that is in the file NOW, was never asked
                    # about this client, and whose protocol's needs become complete by THIS step's event must be asked in this step
                    pb = ctx.get("prereq_before") if ctx.get("target") is i else None
                    if (pb is not None and self.ev.get("t") in ("host", "nohost", "ident", "nick", "userinfo", "hurry") and not pb.get(protoname, True)
                            and self.prereq(i, protoname) and i.queried.get(svc, 0) == 0 and not i.more_pending
                            and not any(n_.lower() == svc.lower() for n_ in i.queried if n_ != svc)):
                        self.v("C06", "query-skipped", "client %d (it crossed a reload): everything protocol %s of %s needs became known by step %r, %s is in the file now and was never asked about this client, but no query was sent" % (
                            cid, protoname, svc, proto.render(self.ev), svc), sig="query-skipped:after-reload:" + protoname)
                    continue
                if i.queried.get(svc, 0) == 0 and self.prereq(i, protoname):
                    self.v("C06", "query-skipped", "client %d: everything protocol %s of %s needs is known (or hurry-up) at the end of step %r but no query was sent" % (
                        cid, protoname, svc, proto.render(self.ev)), sig="query-skipped:" + protoname)
            # credentials: a service whose protocol carries them must have been sent the client's latest
            # well-formed password once everything that protocol needs is known
            if i.pw is not None and not crossed:
                for svc, protoname in self.cfg.services:
                    if protoname in proto.LOGIN_TYPES and self.prereq(i, protoname, "LOGIN") and i.cred_sent.get(svc) != i.pw:
                        self.v("C06", "credentials-not-forwarded", "client %d: %s (%s) has not been sent the client's latest credentials %r by the end of step %r (last sent: %r)" % (
                            cid, svc, protoname, i.pw, proto.render(self.ev), i.cred_sent.get(svc)), sig="credentials-not-forwarded:" + protoname)
                        i.cred_sent[svc] = i.pw   # report once
            if not self.data_ok(i):
                continue
            waiting = bool(i.awaiting) and not (i.timeout_fired and not i.query_after_timeout)
            lenient = bool(i.awaiting) and i.timeout_fired and i.query_after_timeout
            unmet = "!" in i.modes and not i.accounts
            if not waiting and not unmet and not lenient and not getattr(i, "stuck_reported", False):
                i.stuck_reported = True
                why = []
                if i.timeout_fired:
                    why.append("timeout expired")
                if "!" in i.modes:
                    why.append("+! with account %s" % i.accounts)
                self.v("C03", "stuck", "client %d has all data (hurry=%s), no unanswered query%s and no unmet +!, but no verdict after step %r" % (
                    cid, i.hurry, (" (" + ", ".join(why) + ")") if why else "", proto.render(self.ev)),
                       sig="stuck:" + stuck_class(self, i))


def same_or_cut(seen, sent, line_len):
    """A relayed text is the text the service sent; a text that does not fit the daemon's line buffer may arrive cut
    (the line is then about a thousand bytes long) - the statements do not say where, so any cut of such a line is accepted."""
    return seen == sent or (line_len >= 1000 and sent.startswith(seen))


def stuck_class(mon, i):
    """Named classifier for C03 witnesses (used for known-findings signatures)."""
    ev = mon.ev
    t = ev["t"]
    if t in ("reply", "unlinked"):
        if i.timeout_fired:
            return "reply-after-timeout"
        if "!" in i.modes and len(i.accounts) >= 2:
            return "second-account-under-bang"
        return "after-reply"
    if t == "password":
        return "after-password"
    if t == "timeout":
        return "after-timeout"
    return "after-" + t


def analyze(trace):
    m = Monitor(trace)
    viol = m.run()
    return viol, m.stats
