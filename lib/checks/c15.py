"""C15 - reload is deterministic: last good file plus defaults (DESIGN.md C15)."""
import random
import re

import confgen
import hconf
import vcommon
from vcommon import Violation

LEVEL = "exploration"

TOPS = [b"alpha", b"beta", b"gamma"]
KIDS = [b"s", b"l", b"i", b"o", b"n", b"u", b"f"]
HOME_KIND = {b"s": "str", b"l": "list", b"i": "inaddr", b"o": "obj", b"n": "str", b"u": "str", b"f": "str"}
FLOATS = [b"0", b"-0", b"1.5", b"nan", b"1000", b"2.25", b"-7.5"]   # texts with pairwise different values (bit patterns)


def gen_value(rng, kind, name, depth):
    if kind == "str":
        if name == b"n":
            # (the empty text is a text the file gave - not the same as a setting the file omits)
            return ("str", rng.choice([b"0", b"1", b"7", b"42", b"65535", b"0", b"1", b"7", b"42", b""]))
        if name == b"f":
            return ("str", rng.choice(FLOATS))
        # (values that differ only in the case of a letter are different values)
        return ("str", rng.choice([b"", b"v1", b"v2", b"long value", b"x", b"V1", b"Long Value", b"X"]))
    if kind == "list":
        return ("list", rng.choice([[], [b"a"], [b"a", b"b"], [b"a", b"b", b"c"], [b"b", b"a"], [b"a", b"x", b"c"], [b"A"], [b"a", b"B"], [b"A", b"b", b"c"], [b"A", b"B"]]))
    if kind == "inaddr":
        return ("inaddr", rng.choice([b"h1", b"h2", b"::1"]), rng.choice([b"80", b"81", b"http"]))
    return ("obj", gen_obj(rng, depth - 1))


def respell(rng, name):
    """Keys compare case-insensitively: now and then a file spells one differently than the previous file / the registration did."""
    if rng.random() < 0.12:
        return rng.choice([name.upper(), name.capitalize()])
    return name


def gen_obj(rng, depth):
    ents = []
    for k in KIDS:
        if rng.random() < 0.5:
            kind = HOME_KIND[k]
            if rng.random() < 0.08:
                kind = rng.choice(["str", "list", "inaddr"])   # retype
            if kind == "obj" and depth <= 0:
                continue
            ents.append((respell(rng, k), gen_value(rng, kind, k, depth)))
    return ents


def gen_file(rng):
    tree = []
    for t in TOPS:
        if rng.random() < 0.7:
            # now and then a section that is there but empty
            tree.append((respell(rng, t), ("obj", gen_obj(rng, 2) if rng.random() < 0.88 else [])))
    if rng.random() < 0.3:
        tree.append((b"loose", gen_value(rng, rng.choice(["str", "list"]), b"loose", 0)))
    return tree


def gen_regs(rng):
    """Registration commands, each with the lower-cased path and kind it installs a hook on."""
    regs = []
    pct = confgen.pct
    for t in TOPS:
        if rng.random() < 0.25:
            continue
        paths = [t.decode()]
        if rng.random() < 0.5:
            paths.append(t.decode() + "/o")
        if rng.random() < 0.25:
            paths.append(t.decode() + "/o/o")
        for base in paths:
            if rng.random() < 0.5:
                regs.append(("REG obj %s" % base, base, "obj"))
            for k in KIDS:
                if k == b"o" or rng.random() < 0.55:
                    continue
                kind = HOME_KIND[k]
                path = "%s/%s" % (base, k.decode())
                if kind == "str" and k == b"n":
                    regs.append(("REG str %s 2 %s" % (path, pct(rng.choice([b"5", b"0", b"100"]))), path, "str"))
                elif kind == "str" and k == b"f":
                    regs.append(("REG str %s 3 %s" % (path, pct(rng.choice([b"0.5", b"0", b"nan"]))), path, "str"))
                elif kind == "str":
                    regs.append(("REG str %s 0 %s" % (path, pct(rng.choice([None, b"", b"dflt", b"v1"]))), path, "str"))
                elif kind == "list":
                    d = rng.choice([[], [b"d1"], [b"d1", b"d2"], [b"a", b"b"]])
                    # (either of the two registration functions: the vector one and its variadic twin)
                    regs.append(("REG %s %s %d %s" % (rng.choice(["list", "listv"]), path, len(d), " ".join(pct(x) for x in d)), path, "list"))
                else:
                    regs.append(("REG inaddr %s %s %s" % (path, pct(rng.choice([None, b"dh", b"h1"])), pct(rng.choice([None, b"ds", b"80"]))), path, "inaddr"))
    rng.shuffle(regs)
    # parents must be registered before children get hooks: order does not matter for h_conf (walk_path registers parents)
    return regs


def project(dump):
    """path(lower)+kind -> effective value, from an h_conf dump."""
    out = {}
    for ln in hconf.strip_logs(dump):
        m = re.match(r"N (\S+) (str|list|inaddr|obj) p=(\d) s=(\d)(.*)$", ln)
        if not m:
            out[("?" + ln, "garbage")] = ("garbage",)
            continue
        path, kind, p, s, rest = m.groups()
        key = (path.lower().replace('"', ""), kind)
        if kind == "str":
            v = re.search(r" v=(\S+)", rest).group(1)
            pm = re.search(r" parsed=(\S+)", rest)
            parsed = pm.group(1) if pm and pm.group(1) not in ("same", "other", "null") else None
            out[key] = (v, parsed)
        elif kind == "list":
            out[key] = (re.search(r" v=(\S+)", rest).group(1),)
        elif kind == "inaddr":
            out[key] = (re.search(r" h=(\S+)", rest).group(1), re.search(r" sv=(\S+)", rest).group(1))
        else:
            out[key] = ()
    return out


def children(proj, path):
    pre = path + "/"
    return sorted(k for k in proj if k[0].startswith(pre) and "/" not in k[0][len(pre):])


SWAP = {b"v1": b"v2", b"v2": b"v1", b"x": b"y", b"y": b"x", b"a": b"b", b"b": b"a", b"c": b"a", b"h1": b"h2", b"h2": b"h1", b"80": b"81", b"81": b"80",
        b"0": b"1", b"1": b"7", b"7": b"0", b"42": b"24"}


def same_size_variant(rng, tree):
    """The same tree with some values replaced by others of the same length (the rendered file keeps its size)."""
    out = []
    for name, val in tree:
        kind = val[0]
        if kind == "obj":
            val = ("obj", same_size_variant(rng, val[1]))
        elif kind == "str" and val[1] in SWAP and rng.random() < 0.6:
            val = ("str", SWAP[val[1]])
        elif kind == "list" and rng.random() < 0.6:
            val = ("list", [SWAP.get(x, x) for x in val[1]])
        elif kind == "inaddr" and rng.random() < 0.6:
            val = ("inaddr", SWAP.get(val[1], val[1]), SWAP.get(val[2], val[2]))
        out.append((name, val))
    return out


def make_case(seed, i):
    rng = random.Random("c15/%d/%d" % (seed, i))
    n = rng.choice([1, 2, 2, 3, 3, 4, 5])
    files = [gen_file(rng) for _ in range(n)]
    for k in range(1, n):
        if rng.random() < 0.3:
            files[k] = same_size_variant(rng, files[k - 1])   # an edit that keeps the file's size
    if rng.random() < 0.25 and n >= 2:
        files[-1] = files[rng.randrange(n - 1)]          # return to an earlier file
    if rng.random() < 0.15:
        files[-1] = []                                   # a file that drops everything
    regs = gen_regs(rng)
    points = [rng.randint(0, n) for _ in regs]           # before load index p (n = after the last load)
    if rng.random() < 0.3:
        points = [0] * len(regs)
    elif rng.random() < 0.2:
        points = [n] * len(regs)
    return files, regs, points


def _worker(a):
    exe, seed, lo, hi = a
    b = hconf.Batch(exe, leaks=True, timeout_case=30)
    meta = {}
    try:
        for i in range(lo, hi):
            files, regs, points = make_case(seed, i)
            n = len(files)
            texts = [confgen.render_conservative(f) if f else b"// nothing\n" for f in files]
            paths = [b.add_file(t) for t in texts]
            # every second history loads ONE path that is overwritten in place before each load (same inode, often the same
            # size and modification second) - the way a configuration file is edited and re-read
            live = (paths[0] + ".live") if i % 2 else None
            # a file that does not parse, loaded between the good ones in some histories: it must change nothing, also not later
            rngb = random.Random("c15b/%d/%d" % (seed, i))
            bad_at = rngb.randrange(n) if (n >= 2 and rngb.random() < 0.3) else None
            badp = b.add_file(texts[rngb.randrange(n)] + rngb.choice([b'\nzz_bad { "\n', b'\nzz_bad ( q1 q2 )\n', b'\nzz_bad { l ( q1, q2\n', b'\nzz_bad h1 s1 extra\n'])) if bad_at is not None else None
            cmds = []
            for li in range(n):
                cmds += [r[0] for r, p in zip(regs, points) if p == li]
                if li == bad_at and li > 0:
                    cmds += (["COPY " + confgen.pct(badp) + " " + confgen.pct(live)] if live else []) + ["XLOAD " + confgen.pct(live or badp)]
                if live:
                    cmds += ["COPY " + confgen.pct(paths[li]) + " " + confgen.pct(live)]
                cmds += ["HOOKS", "DUMP", "LOAD " + confgen.pct(live or paths[li]), "DUMP", "HOOKS"]
            cmds += [r[0] for r, p in zip(regs, points) if p == n]
            cmds += ["DUMP", "HOOKS", "LOAD " + confgen.pct(live or paths[-1]), "DUMP", "HOOKS"]
            b.case("h%d" % i, ["FDS"] + cmds + ["FDS"])
            b.case("b%d" % i, [r[0] for r in regs] + ["LOAD " + confgen.pct(paths[-1]), "DUMP"])
            b.case("a%d" % i, ["LOAD " + confgen.pct(paths[-1])] + [r[0] for r in regs] + ["DUMP"])
            meta[i] = (files, regs, points, texts, bad_at is not None and bad_at > 0)
        recs, r = b.run()
    finally:
        b.cleanup()
    by = {rec.name: rec for rec in recs}
    out = []
    stats = {"sequences": 0, "loads": 0, "reload_pairs_compared": 0, "registered_value_changes": 0, "hook_deliveries_seen": 0,
             "idempotent_reloads": 0, "object_membership_changes": 0, "leak_checks": 0}
    for i, (files, regs, points, texts, has_bad) in meta.items():
        n = len(files)
        wit = {"files": [t.decode("latin-1") for t in texts], "regs": [r[0] for r in regs], "points": points, "index": i}
        H, B, A = by.get("h%d" % i), by.get("b%d" % i), by.get("a%d" % i)
        bad = False
        for tag, rec in (("history", H), ("fresh-reg-before", B), ("fresh-reg-after", A)):
            if rec is None:
                out.append(("harness", "harness", "lost case", wit))
                bad = True
                continue
            for kind, func in hconf.case_crash_events(rec):
                if kind == "leak" and has_bad and tag == "history":
                    # the parser does not free what it was holding when it rejects a file; that is not judged (see C14)
                    stats["leaks_after_rejected_file_not_judged"] = stats.get("leaks_after_rejected_file_not_judged", 0) + 1
                    continue
                txt = [s["text"] for s in rec.sanitizer if s["kind"] == kind]
                out.append(("sanitizer", "%s|%s" % (kind, func), "%s run: %s in %s\nfiles:\n%s\nregs: %s\n%s" % (
                    tag, kind, func, "\n---\n".join(wit["files"]), wit["regs"], (txt[0] if txt else "")[:1800]), wit))
                bad = True
            if not bad and any(rec.loads):
                out.append(("harness", "harness", "generated file did not load: %s" % rec.loads, wit))
                bad = True
        stats["sequences"] += 1
        if bad:
            continue
        if has_bad:
            xl = [l for l in H.text if l.startswith("XLOAD rc=")]
            stats["rejected_files_inside_histories"] = stats.get("rejected_files_inside_histories", 0) + len(xl)
            if any(l == "XLOAD rc=0" for l in xl):
                out.append(("harness", "harness", "a file meant to be rejected was accepted", wit))
                continue
        if i % 2:
            stats["histories_rewriting_one_file_in_place"] = stats.get("histories_rewriting_one_file_in_place", 0) + 1
        stats["leak_checks"] += 3
        stats["loads"] += n + 1
        # --- history independence
        final = project(H.dumps[2 * n])
        fb, fa = project(B.dumps[0]), project(A.dumps[0])
        stats["reload_pairs_compared"] += 2
        for other, nm in ((fb, "a fresh process that registered first and loaded only the last file"),
                          (fa, "a fresh process that loaded only the last file and registered afterwards")):
            if final != other:
                ks = sorted(set(final) | set(other))
                diff = ["%s: history=%s other=%s" % (k, final.get(k, "absent"), other.get(k, "absent")) for k in ks if final.get(k) != other.get(k)]
                kinds = sorted(set(k[1] for k in ks if final.get(k) != other.get(k)))
                out.append(("history", "history:" + "+".join(kinds) + (":reg-after" if other is fa else ":reg-before"),
                            "after %d loads the live tree differs from %s:\n%s\nfiles:\n%s\nregs: %s points %s" % (
                                n, nm, "\n".join(diff[:6]), "\n---\n".join(wit["files"]), wit["regs"], points), wit))
                break
        # --- what the file says, said once, is what the setting is: an empty text is a value (not an omission)
        occ = {}

        def walk(nodes, pre):
            for nm, node in nodes:
                pth = (pre + "/" if pre else "") + nm.decode("latin-1").lower()
                occ.setdefault(pth, []).append(node)
                if node[0] == "obj":
                    walk(node[1], pth)
        walk(files[-1] or [], "")
        for pth, nodes_ in occ.items():
            if len(nodes_) == 1 and nodes_[0][0] == "str" and nodes_[0][1] == b"" and all(len(occ.get("/".join(pth.split("/")[:k]), [])) == 1 for k in range(1, pth.count("/") + 1)):
                stats["empty_texts_judged"] = stats.get("empty_texts_judged", 0) + 1
                got_ = final.get((pth, "str"))
                if got_ is not None and got_[0] != '""':
                    out.append(("value-not-as-written", "value-not-as-written:empty-text", "the last file gives %s the empty text; the setting is %s\nfiles:\n%s\nregs: %s" % (
                        pth, got_, "\n---\n".join(wit["files"][-2:]), wit["regs"]), wit))
                    break
        # --- nothing is left open: as many file descriptors after the history as before it
        fds = [int(o[6:]) for o in H.other if o.startswith("FDS n=")]
        if len(fds) == 2:
            stats["descriptor_counts_compared"] = stats.get("descriptor_counts_compared", 0) + 1
            if fds[0] != fds[1]:
                out.append(("descriptors", "descriptors", "%d file descriptors were open before the %d loads of this history, %d after them\nfiles:\n%s" % (
                    fds[0], n + 1, fds[1], "\n---\n".join(wit["files"])), wit))
        # --- idempotence
        again = project(H.dumps[2 * n + 1])
        stats["idempotent_reloads"] += 1
        if again != final:
            out.append(("idempotent-dump", "idempotent-dump", "loading the same file twice changed the tree", wit))
        if H.hooks[2 * n + 1]:
            out.append(("idempotent-hook", "idempotent-hook:" + "+".join(sorted(set(h.split()[1] for h in H.hooks[2 * n + 1]))),
                        "loading the same file twice ran hooks %s\nfiles:\n%s\nregs: %s" % (H.hooks[2 * n + 1][:5], "\n---\n".join(wit["files"]), wit["regs"]), wit))
        # --- hooks on effective change
        for li in range(n):
            before, after = project(H.dumps[2 * li]), project(H.dumps[2 * li + 1])
            hooks = set()
            for hl in H.hooks[2 * li + 1]:
                parts = hl.split(" ")
                if len(parts) >= 3:
                    hooks.add((parts[2].lower().replace('"', ""), parts[1]))
            stats["hook_deliveries_seen"] += len(hooks)
            registered = set((r[1], r[2]) for r, p in zip(regs, points) if p <= li)
            # intermediate objects registered by walk_path also carry hooks
            for r, p in zip(regs, points):
                if p <= li:
                    comps = r[1].split("/")
                    for k in range(1, len(comps)):
                        registered.add(("/".join(comps[:k]), "obj"))
            for key in registered:
                if key[1] == "obj":
                    cb, ca = children(before, key[0]), children(after, key[0])
                    if cb != ca and key in before and key in after:
                        stats["object_membership_changes"] += 1
                        if key not in hooks:
                            out.append(("hook-object", "hook-object", "load #%d changed the members of registered object %s (%s -> %s) but its hook did not run (hooks: %s)\nfiles:\n%s\nregs: %s" % (
                                li + 1, key[0], cb, ca, sorted(hooks), "\n---\n".join(wit["files"][max(0, li - 1):li + 1]), wit["regs"]), wit))
                else:
                    vb, va = before.get(key), after.get(key)
                    if vb is not None and va is not None and vb != va:
                        if key[1] == "str" and len(vb) > 1 and len(va) > 1 and vb[1] is not None and vb[1] == va[1]:
                            # a typed setting whose TEXT changed and whose number did not ("0" -> ""): its effective value is the
                            # number; whether the hook runs for such a change is not promised either way
                            stats["typed_text_changes_with_equal_number"] = stats.get("typed_text_changes_with_equal_number", 0) + 1
                            continue
                        stats["registered_value_changes"] += 1
                        if key not in hooks:
                            out.append(("hook-value", "hook-value:%s:%s" % (key[1], "to-null" if "NULL" in va[0] else ("from-null" if "NULL" in vb[0] else "value")),
                                        "load #%d changed registered %s %s from %s to %s but its hook did not run (hooks: %s)\nfiles:\n%s\nregs: %s" % (
                                            li + 1, key[1], key[0], vb, va, sorted(hooks), "\n---\n".join(wit["files"][max(0, li - 1):li + 1]), wit["regs"]), wit))
    return out, stats


def run(chk, tier, scale=1.0):
    exe = hconf.build_exe("c15-" + tier)
    n = int((1600 if tier == "quick" else 40000) * scale)
    per = 50
    work = [(exe, chk.seed, lo, min(n, lo + per)) for lo in range(0, n, per)]
    res = vcommon.pmap(_worker, work)
    for out, stats in res:
        chk.merge_counts(stats)
        for rule, sig, text, wit in out[:8]:
            if rule == "harness":
                chk.inconc(text)
            else:
                chk.violation(Violation("C15", rule, sig, text, wit))
    for i in range(n):
        files, regs, points = make_case(chk.seed, i)
        chk.add_case(vcommon.h([str(files), [r[0] for r in regs], points]), len(files) >= 2 or bool(regs))
    chk.rule = ("sequences of 1-5 valid files over 3 top-level objects x 6 child names x 4 kinds (nested to depth 3, occasional retyping, empty files, "
                "returning to an earlier file, edits that keep the file size; every second history rewrites ONE path in place before each load; some histories "
                "load a rejected file in between) with a random registration set (typed/plain strings with NULL/empty/non-empty defaults, lists, host/service "
                "pairs, objects) registered at random points; oracle: final effective values equal those of two fresh processes (register-then-load, "
                "load-then-register), reloading the last file changes nothing and runs no hook, every registered node whose effective value changed and "
                "every registered object whose member set changed across a load appears in the hook log; ASan+LSan on; non-trivial = >=2 loads or >=1 registration")
    f, r, p = make_case(chk.seed, 0)
    chk.sample({"files": [confgen.render_conservative(x).decode("latin-1") for x in f], "registrations": [x[0] for x in r], "registration_points": p})
    # a load that succeeds although reading the file misbehaved once must deliver what the WHOLE file says (fault cases of C14)
    from checks import c14
    fres = vcommon.pmap(c14.fault_worker, [(exe, chk.seed * 37 + k, 4) for k in range(4 if tier == "quick" else 48)])
    c14.fold_faults(chk, "C15", fres, ("fault-wrong-tree",))
    chk.require("fault_cases", 500)
    chk.require("sequences", 500)
    chk.require("registered_value_changes", 200)
    chk.require("object_membership_changes", 20)
    chk.assumptions += ["effective values compared (value, list items, host/service, parsed number); present/specified bits and default copies are not",
                        "spurious hook calls on changed content are tolerated; only the idempotent reload must be silent"]


def replay(chk, rep):
    exe = hconf.build_exe("c15-replay")
    w = rep["witness"]
    if w.get("fault_case"):
        from checks import c14
        out = []
        for k in range(48):
            o, st = c14.fault_worker((exe, chk.seed * 37 + k, 4))
            out += [x for x in o if x[0] == "fault-wrong-tree" and x[3].get("fault") == w["fault"]]
            if out:
                break
        for o in out[:3]:
            print(o[0], o[1], o[2][:2000])
        return 1 if out else 0
    out, stats = _worker((exe, rep["seed"], w["index"], w["index"] + 1))
    for o in out:
        print(o[0], o[1], o[2][:2000])
    return 1 if [o for o in out if o[0] != "harness"] else 0
