"""C07 - concurrent clients do not interfere (DESIGN.md C07)."""
import itertools
import random
import re

import gen
import proto
import prun
import vcommon
from checks import pcommon
from vcommon import Violation

LEVEL = "exploration"
# libevent times its timers by the coarse monotonic clock, which may read up to a tick (4-10 ms) behind: an acceptance counts as
# premature only when it is more than 50 ms early (the changes this oracle is for make it early by the gap between two clients: 80 ms+)
TIMER_SLACK = 0.05
PROPS = ["C07"]


IDPOOL = [2, 3, 5, 7, 11, 13, 100, 4095, 65536, 7000001, 2147483647, -2, -2147483648, 268435456] + list(range(200, 240))


def _long_text(rng, kind):
    """A challenge / retry / refusal whose relayed line reaches the daemon's output buffer."""
    return kind + " " + "".join(rng.choice("abcdefghij klmnop%:") for _ in range(rng.choice([990, 1000, 1010, 1024, 1100]))).strip()


def gen_script(rng, cid, cfg, length, long_texts=0.0):
    """A client's own event stream; replies are addressed symbolically ('whatever I await from svc')."""
    f = gen.Fields(rng, boundary=0.2)
    ip = rng.choice(gen.IPS4 + gen.IPS6)
    port = rng.choice([1024, 40000, 65535])
    acts = [{"a": "announce", "ip": ip, "port": port}]
    svcs = [n for n, p in cfg.services]
    items = ["host", "ident", "nick", "userinfo"]
    rng.shuffle(items)
    pool = []
    for it in items:
        pool.append({"a": it})
    if rng.random() < 0.7:
        pool.insert(rng.randrange(len(pool) + 1), {"a": "password", "text": f.password(rng.random() < 0.85)})
    if rng.random() < 0.3:
        pool.insert(rng.randrange(len(pool) + 1), {"a": "hurry"})
    if rng.random() < 0.3:
        pool.insert(rng.randrange(len(pool) + 1), {"a": "timeout"})
    # sprinkle replies
    out = []
    for a in pool:
        out.append(a)
        while svcs and rng.random() < 0.45:
            if rng.random() < 0.12:
                out.append({"a": "unlinked", "svc": rng.choice(svcs)})
                continue
            kind_ = rng.choice(["OK", "OKacct", "AGAIN", "MORE", "junk", "OK", "NO"])
            out.append({"a": "reply", "svc": rng.choice(svcs), "text": _long_text(rng, kind_) if (kind_ in ("AGAIN", "MORE", "NO") and rng.random() < long_texts)
                        else gen.reply_text(rng, kind_)})
    for sv in svcs:
        if rng.random() < 0.8:
            out.append({"a": "reply", "svc": sv, "text": gen.reply_text(rng, rng.choice(["OK", "OKacct", "OK"]))})
    if rng.random() < 0.3:
        out.append({"a": "password", "text": f.token() if rng.random() < 0.5 else f.password(True)})
        for sv in svcs:
            out.append({"a": "reply", "svc": sv, "text": "OK"})
    if svcs and rng.random() < 0.3:
        # the id comes back (same client slot re-used by the server) while the previous holder's query is unanswered; the
        # late answer to the PREVIOUS holder arrives afterwards and must not touch the newcomer
        out += [{"a": "password", "text": f.password(True)}, {"a": "reannounce"}, {"a": "password", "text": f.password(True)},
                {"a": "stale", "svc": rng.choice(svcs), "text": gen.reply_text(rng, rng.choice(["OKacct", "NO", "MORE", "OK"]))}]
    if long_texts >= 0.5 and svcs:
        # (in the sets that are about over-long texts every client is, first of all, told to retry with such a text by whichever
        # service its password makes the daemon ask - whatever the dice above came up with)
        lrng = random.Random("long/%d/%d" % (cid, len(out)))
        out = [{"a": "host"}, {"a": "ident"}, {"a": "password", "text": "+x acct%d pw0" % (cid % 100)}] + \
              [{"a": "reply", "svc": sv, "text": _long_text(lrng, "AGAIN")} for sv in svcs] + out
    tail = rng.choice(["hurry", "disconnect", "registered", "timeout", "reannounce", "registered", "disconnect"])
    out.append({"a": tail})
    if tail in ("hurry", "timeout"):
        out.append({"a": rng.choice(["registered", "disconnect"])})
    if tail == "reannounce":
        out += [{"a": "hurry"}] + [{"a": "reply", "svc": sv, "text": "OK"} for sv in svcs]
    acts += out[:max(3, length)]
    # concrete field values are fixed per script so that solo and merged runs send identical lines
    for a in acts:
        if a["a"] == "host":
            a["name"] = f.host() if rng.random() < 0.8 else None
        elif a["a"] == "ident":
            a["name"] = f.ident()
        elif a["a"] == "nick":
            a["name"] = f.nick()
        elif a["a"] == "userinfo":
            a["user"], a["real"] = f.user(), f.real()
    return acts


def to_event(s, cid, act, script):
    a = act["a"]
    if a in ("announce", "reannounce"):
        first = script[0]
        return {"t": "announce", "id": cid, "ip": first["ip"], "port": first["port"]}
    if cid not in s.open and a not in ("disconnect", "registered"):
        # the client is gone (verdict / disconnect): the server sends nothing more about it
        return None
    if a == "host":
        return {"t": "host", "id": cid, "name": act["name"]} if act["name"] else {"t": "nohost", "id": cid}
    if a == "ident":
        return {"t": "ident", "id": cid, "name": act["name"]}
    if a == "nick":
        return {"t": "nick", "id": cid, "name": act["name"]}
    if a == "userinfo":
        return {"t": "userinfo", "id": cid, "user": act["user"], "real": act["real"]}
    if a == "password":
        return {"t": "password", "id": cid, "text": act["text"]}
    if a in ("disconnect", "registered"):
        # routine traffic: the server reports T / D also for clients the daemon has already decided
        return {"t": a, "id": cid}
    if a in ("hurry", "timeout"):
        if cid not in s.open:
            return None
        return {"t": a, "id": cid}
    if a == "reply":
        st = s.open.get(cid)
        if not st or act["svc"] not in st["awaiting"]:
            return None
        return {"t": "reply", "svc": act["svc"], "tag": st["tag"], "text": act["text"]}
    if a == "unlinked":
        # the server could not deliver the query: the service is not linked (`x` notice)
        st = s.open.get(cid)
        if not st or act["svc"] not in st["awaiting"]:
            return None
        return {"t": "unlinked", "svc": act["svc"], "tag": st["tag"], "text": act.get("text", "Server not online")}
    if a == "stale":
        old = [t for (c, t, svs) in s.old_tags if c == cid]
        st = s.open.get(cid)
        if not old or (st and st["tag"] == old[-1]):
            return None
        return {"t": "reply", "svc": act["svc"], "tag": old[-1], "text": act["text"]}
    return None


def concerns(line, cid):
    c = proto.classify(line)
    if not c:
        return False
    if c["kind"] == "client":
        return c["id"] == cid
    if c["kind"] == "xquery":
        pt = proto.parse_tag(c["tag"])
        return pt is not None and pt[0] == cid
    return False


def who(line):
    c = proto.classify(line)
    if not c:
        return None
    if c["kind"] == "client":
        return c["id"]
    if c["kind"] == "xquery":
        pt = proto.parse_tag(c["tag"])
        return pt[0] if pt else None
    return None


def order_queries(lines):
    """Queries that one step sends to DIFFERENT services go out in the order of the services' table slots, which depends on what
    earlier reloads left in the table (a retired service kept for other clients' answers occupies a slot).  That order means nothing
    to the server - each X line goes to another service - so consecutive X lines are compared sorted by service (stable: two
    queries to one service keep their order)."""
    out = []
    run = []
    for ln in lines:
        if ln.startswith("X "):
            run.append(ln)
        else:
            out += sorted(run, key=lambda l: l.split(" ")[1])
            run = []
            out.append(ln)
    return out + sorted(run, key=lambda l: l.split(" ")[1])


def run_merge(b, cfg, scripts, order, audit_every=50):
    """order: list of client ids, one entry per script action.  Returns (per-client conversations, audit results, Result, n_steps)."""
    s = proto.Session(b, cfg)
    conv = {cid: [] for cid in scripts}       # list of (action index, [normalised lines]) ; foreign lines under index -1
    serial_map = {cid: {} for cid in scripts}
    pos = {cid: 0 for cid in scripts}
    audits = []

    def norm(cid, line):
        c = proto.classify(line)
        if c and c["kind"] == "xquery":
            pt = proto.parse_tag(c["tag"])
            sm = serial_map[cid]
            if pt[1] not in sm:
                sm[pt[1]] = len(sm) + 1
            return "X %s %x_S%d :%s" % (c["svc"], pt[0] & 0xffffffff, sm[pt[1]], c["text"])
        return line
    sent_lines = []
    all_out = []
    try:
        nsteps = 0
        for cid in order:
            if isinstance(cid, str) and cid.startswith("Q"):
                # an operator asks for a report (statistics / configuration): nobody's conversation, and it changes nobody's
                s.do({"t": "stats"} if cid == "Q0" else {"t": "noise", "line": "-1 ? config"})
                sent_lines.append(None)
                nsteps += 1
                continue
            if isinstance(cid, str):
                # "R<k>": a SIGUSR1 reload to service table k - a global event at a fixed place of every client's own script
                s.do({"t": "reload", "services": [list(x) for x in run_merge.tables[int(cid[1:])]]})
                sent_lines.append(None)
                nsteps += 1
                continue
            k = pos[cid]
            pos[cid] += 1
            act = scripts[cid][k]
            ev = to_event(s, cid, act, scripts[cid])
            if ev is None:
                conv[cid].append((k, "skipped"))
                continue
            out = s.do(ev)
            sent_lines.append(proto.render(ev))
            all_out += [l for l in (out or []) if not l.startswith("#verif")]
            nsteps += 1
            mine = []
            for ln in out or []:
                w = who(ln)
                if w is None and ln.startswith("X "):
                    # a query whose tag names nobody: it was this client's line that caused it
                    mine.append("UNROUTABLE " + ln)
                elif w == cid:
                    mine.append(norm(cid, ln))
                elif w in conv:
                    conv[w].append((-1, "during step of client %d (%s): %s" % (cid, proto.render(ev), norm(w, ln))))
            conv[cid].append((k, order_queries(mine)))
            if s.dead:
                break
            if audit_every and nsteps % audit_every == 0:
                audits.append(s.do({"t": "audit"}))
        if not s.dead:
            audits.append(s.do({"t": "audit"}))
        r = s.finish()
    except Exception:
        s.kill()
        raise
    run_merge.last_io = ([l for l in sent_lines if l is not None], all_out + [l for l in r.tail if not l.startswith("#verif")], s.config)
    run_merge.had_reload = any(l is None for l in sent_lines)
    return conv, audits, r, nsteps


def batch_replay_differs(b, sent_lines, lock_out, cfg):
    """The same input lines written in one go (no sync lines, no hooks): stdout must be the same as in lock-step."""
    import daemon
    data = ("\n".join(sent_lines) + "\n").encode("latin-1")
    out, r = daemon.run_batch(b, cfg.text(b["moddir"]), data, leaks=True, timeout=20)
    if not r.clean():
        return "daemon unclean when the interleaved stream is written in one piece: %s" % (r.describe(),)
    body = []
    started = False
    for l in out:
        if not started:
            # skip the start-up banner (V, a, A..., O)
            if l.startswith("O ") or (l.startswith("A ") is False and l.startswith("V ") is False and l != "a"):
                started = True
                if l.startswith("O "):
                    continue
            else:
                continue
        body.append(l)
    f = lambda ls: [l for l in ls if not l.startswith("S class ")]
    if f(body) != f(lock_out):
        k = next((i for i in range(min(len(body), len(lock_out))) if f(body)[i:i + 1] != f(lock_out)[i:i + 1]), min(len(body), len(lock_out)))
        return "stdout differs at line %d between lock-step and one-piece delivery: %r vs %r" % (k, f(lock_out)[k:k + 2], f(body)[k:k + 2])
    return None


def _worker(a):
    b, cfgj, seed, nclients, length, nmerges = a["build"], a["config"], a["seed"], a["nclients"], a["length"], a["nmerges"]
    rng = random.Random(seed)
    cfg = proto.Config.from_json(cfgj)
    ids = rng.sample(IDPOOL, nclients)
    if a.get("early_comeback") and a["seed"] % 2:
        # the client that comes back has an id of five hex digits: with a serial of two digits its routing tag is 8 characters long
        if 65536 in ids:
            ids.remove(65536)
            ids.insert(0, 65536)
        else:
            ids[0] = 65536
    if nclients >= 10:
        # an id of seven hex digits: its routing tag grows from 9 to 10 characters once the serial needs two digits
        for big in (134217727, 16777216):
            if big not in ids:
                ids[-1 if big == 134217727 else -2] = big
    scripts = {cid: gen_script(rng, cid, cfg, length, long_texts=a.get("long_texts", 0.0)) for cid in ids}
    if cfg.use_class and cfg.rules and seed % 2 == 0:
        # with class rules in force, every second set of clients comes from ONE address (users behind one gateway): what the rules
        # make of one of them must not depend on what they made of the one before
        ip0, port0 = scripts[ids[0]][0]["ip"], scripts[ids[0]][0]["port"]
        for cid in ids[1:]:
            scripts[cid][0]["ip"] = ip0
    # optional: SIGUSR1 reloads that switch the service table (names keep their protocol) at fixed places of the merged order;
    # the solo reference of a client then has the reloads at the same places of ITS script
    if a.get("early_comeback"):
        # the first client of the run (serial 1) asks its service and is replaced much later, when many others have been announced,
        # by a newcomer on the same id that asks the same service; then the answer to the FIRST holder arrives
        x = ids[0]
        sv0 = cfg.services[0][0]
        scripts[x] = [{"a": "announce", "ip": "192.0.2.1", "port": 1024}, {"a": "password", "text": "+x alice pw1"},
                      {"a": "reannounce"}, {"a": "password", "text": "+x bob pw2"},
                      {"a": "stale", "svc": sv0, "text": rng.choice(["OK alice", "NO bad password", "MORE prove it"])},
                      {"a": "host", "name": "h.example"}, {"a": "ident", "name": "id"}, {"a": "nick", "name": "nn"}, {"a": "userinfo", "user": "u", "real": "r"},
                      {"a": "reply", "svc": sv0, "text": "OK bob"}] + \
                     [{"a": "reply", "svc": n, "text": "OK"} for n, p_ in cfg.services[1:]] + [{"a": "hurry"}, {"a": "registered"}]
    tables = gen.reload_tables(rng, cfg.services, extra=1, n=2) if a.get("reload") else None
    if a.get("directed") == "leaver-barrier":
        # Y and X are both asked by chal.svc; Y gets a (non-final or final) answer; a reload removes chal.svc while X still waits;
        # Y leaves before or after that reload; then chal.svc answers X.  X alone sees the same reload at the same place of its script.
        y, x = ids[0], ids[1]
        ids = [y, x]
        yrep = rng.choice(["AGAIN retry", "MORE prove it", "OK acct1", "OK"])
        scripts = {
            y: [{"a": "announce", "ip": "192.0.2.1", "port": 1024}, {"a": "password", "text": "+x acct1 pw"},
                {"a": "reply", "svc": "chal.svc", "text": ["AGAIN retry", "MORE prove it", "OK acct1", "OK"][a["variant"] % 4] if "variant" in a else yrep},
                {"a": rng.choice(["disconnect", "registered"])}],
            x: [{"a": "announce", "ip": "192.0.2.2", "port": 1025}, {"a": "password", "text": "+x acct2 pw"},
                {"a": "reply", "svc": "chal.svc", "text": rng.choice(["OK acct2", "NO refused"])},
                {"a": "host", "name": "h.example"}, {"a": "ident", "name": "id"}, {"a": "nick", "name": "nn"}, {"a": "userinfo", "user": "u", "real": "r"},
                {"a": "reply", "svc": "keep.svc", "text": "OK"}, {"a": "hurry"}],
        }
        tables = [[("keep.svc", "dronecheck")]]
        if rng.random() < 0.5:
            a["merges"] = [[y, y, x, x, y, "R0", y, x, x, x, x, x, x, x]]
        else:
            a["merges"] = [[y, y, x, x, y, y, "R0", x, x, x, x, x, x, x]]
    if a.get("directed") == "retry-barrier":
        # Y is told AGAIN by chal.svc and asks it a second time; X waits on chal.svc as well; a reload removes chal.svc; the answer to
        # Y's second query arrives before the answer to X.  X alone sees the same reload at the same place of its script.
        y, x = ids[0], ids[1]
        ids = [y, x]
        scripts = {
            y: [{"a": "announce", "ip": "192.0.2.1", "port": 1024}, {"a": "password", "text": "+x acct1 pw"}, {"a": "reply", "svc": "chal.svc", "text": "AGAIN wrong password"},
                {"a": "password", "text": "+x acct1 pw2"}, {"a": "reply", "svc": "chal.svc", "text": rng.choice(["OK acct1", "AGAIN no", "OK"])},
                {"a": rng.choice(["disconnect", "registered", "hurry"])}],
            x: [{"a": "announce", "ip": "192.0.2.2", "port": 1025}, {"a": "password", "text": "+x acct2 pw"},
                {"a": "reply", "svc": "chal.svc", "text": rng.choice(["OK acct2", "NO refused", "MORE prove it"])},
                {"a": "host", "name": "h.example"}, {"a": "ident", "name": "id"}, {"a": "nick", "name": "nn"}, {"a": "userinfo", "user": "u", "real": "r"},
                {"a": "reply", "svc": "keep.svc", "text": "OK"}, {"a": "hurry"}],
        }
        tables = [[("keep.svc", "dronecheck")]]
        a["merges"] = [rng.choice([[y, y, y, y, x, x, "R0", y, x, y, x, x, x, x, x, x],
                                   [y, x, x, y, y, y, "R0", y, y, x, x, x, x, x, x, x],
                                   [x, x, y, y, y, y, "R0", y, x, x, x, x, x, x, y, x]])]
    if a.get("directed") == "leaver-then-newcomer":
        # A is asked, answered (challenged, approved, told to retry) and leaves; only then B arrives - whatever memory A's records
        # occupied is B's now.  B retries its password, completes and is accepted by its timeout without an answer of its own.
        y, x = ids[0], ids[1]
        ids = [y, x]
        sv0 = cfg.services[0][0]
        scripts = {
            y: [{"a": "announce", "ip": "192.0.2.1", "port": 1024}, {"a": "host", "name": "ha.example"}, {"a": "ident", "name": "ida"}, {"a": "password", "text": "+x alice pw"},
                {"a": "reply", "svc": sv0, "text": ["MORE prove it", "OK alice", "OK", "AGAIN retry"][a.get("variant", 0) % 4]}, {"a": rng.choice(["disconnect", "registered"])}],
            x: [{"a": "announce", "ip": "192.0.2.2", "port": 1025}, {"a": "host", "name": "h.example"}, {"a": "ident", "name": "id"},
                {"a": "password", "text": "+x bob pw"}, {"a": "reply", "svc": sv0, "text": "AGAIN wrong password"},
                {"a": "password", "text": "+x bob pw2"}, {"a": "nick", "name": "nn"},
                {"a": "userinfo", "user": "u", "real": "r"}, {"a": "hurry"}, {"a": "timeout"}, {"a": "registered"}],
        }
        a["merges"] = [[y] * len(scripts[y]) + [x] * len(scripts[x])]
    if a.get("directed") == "gateway":
        # clients behind ONE address; the rule table places them by account first and by address last.  The one without an account
        # falls through to the address rule; the one who logs in right after it (or before it) is placed by its account - whoever
        # was placed just before from the same address
        y, x, z = ids[0], ids[1], ids[2]
        ids = [y, x, z]
        sv0 = cfg.services[0][0]
        ip0 = ["10.1.2.3", "2001:db8::9", "192.0.2.200"][a.get("variant", 0) % 3]
        data = [{"a": "host", "name": "gw.example"}, {"a": "ident", "name": "id"}, {"a": "nick", "name": "nn"}, {"a": "userinfo", "user": "u", "real": "r"}]
        scripts = {
            y: [{"a": "announce", "ip": ip0, "port": 1024}] + data + [{"a": "hurry"}, {"a": "registered"}],
            x: [{"a": "announce", "ip": ip0, "port": 1025}, {"a": "password", "text": "+x oper1 pw"}, {"a": "reply", "svc": sv0, "text": "OK oper1"}] + data + [{"a": "hurry"}, {"a": "registered"}],
            z: [{"a": "announce", "ip": ip0, "port": 1026}, {"a": "password", "text": "+x zed pw"}, {"a": "reply", "svc": sv0, "text": "OK zed"}] + data + [{"a": "hurry"}, {"a": "registered"}],
        }
        a["merges"] = [[y] * len(scripts[y]) + [x] * len(scripts[x]) + [z] * len(scripts[z]), [z] * len(scripts[z]) + [y] * len(scripts[y]) + [x] * len(scripts[x]),
                       [x] * len(scripts[x]) + [y] * len(scripts[y]) + [z] * len(scripts[z])]
    if a.get("directed") == "validated-then-stale":
        # X's first holder gets a non-final answer, the id comes back and asks again, and the late answer to the FIRST holder follows
        # with nothing else from that service in between when X is alone; interleaved, other clients' answers come in between
        x, y, z = ids[0], ids[1], ids[2]
        ids = [x, y, z]
        sv0 = cfg.services[0][0]
        others = [{"a": "password", "text": "+x other pw"}, {"a": "reply", "svc": sv0, "text": "AGAIN once more"}, {"a": "password", "text": "+x other pw2"},
                  {"a": "reply", "svc": sv0, "text": "OK other"}, {"a": "hurry"}, {"a": "disconnect"}]
        scripts = {
            x: [{"a": "announce", "ip": "192.0.2.1", "port": 1024}, {"a": "password", "text": "+x alice pw1"},
                {"a": "reply", "svc": sv0, "text": rng.choice(["AGAIN wrong password", "MORE prove it"])},
                {"a": "reannounce"}, {"a": "password", "text": "+x bob pw2"},
                {"a": "stale", "svc": sv0, "text": rng.choice(["OK alice", "NO bad password", "MORE prove it", "AGAIN retry"])},
                {"a": "host", "name": "h.example"}, {"a": "ident", "name": "id"}, {"a": "nick", "name": "nn"}, {"a": "userinfo", "user": "u", "real": "r"},
                {"a": "reply", "svc": sv0, "text": "OK bob"}, {"a": "hurry"}, {"a": "registered"}],
            y: [{"a": "announce", "ip": "192.0.2.2", "port": 1025}] + others,
            z: [{"a": "announce", "ip": "192.0.2.3", "port": 1026}] + others,
        }
    run_merge.tables = tables
    res = {"viol": [], "stats": {"script_sets": 1, "merges_run": 0, "distinct_interleavings": 0, "client_conversations_compared": 0,
                                 "audits": 0, "steps": 0, "conversation_lines": 0}, "inconc": [], "hash": vcommon.h([cfgj, seed]), "hashes": []}
    ref = {}
    solo_cache = {}

    def solo(cid, splits=()):
        """Reference conversation of one client alone; splits = numbers of its own actions that precede each reload."""
        key = (cid, tuple(splits))
        if key not in solo_cache:
            order1 = []
            prev = 0
            for ri, k in enumerate(splits):
                order1 += [cid] * (k - prev) + ["R%d" % ri]
                prev = k
            order1 += [cid] * (len(scripts[cid]) - prev)
            conv, audits, r, n = run_merge(b, cfg, {cid: scripts[cid]}, order1, audit_every=0)
            solo_cache[key] = (conv[cid], r)
        return solo_cache[key]
    for cid in ids:
        c_, r = solo(cid)
        if not r.clean():
            res["inconc"].append("daemon unclean in a solo run: %s" % (r.describe(),))
            return res
        ref[cid] = c_
        res["stats"]["conversation_lines"] += sum(len(x[1]) for x in c_ if isinstance(x[1], list))
    merges = a.get("merges")
    seen = set()
    for mi in range(nmerges):
        if merges is not None:
            if mi >= len(merges):
                break
            order = merges[mi]
        else:
            slots = [cid for cid in ids for _ in scripts[cid]]
            style = rng.random()
            if style < 0.6:
                rng.shuffle(slots)
            elif style < 0.8:
                # round robin
                its = {cid: len(scripts[cid]) for cid in ids}
                slots = []
                while any(its.values()):
                    for cid in ids:
                        if its[cid]:
                            slots.append(cid)
                            its[cid] -= 1
            else:
                # bursts
                rem = {cid: len(scripts[cid]) for cid in ids}
                slots = []
                while any(rem.values()):
                    cid = rng.choice([c for c in ids if rem[c]])
                    n = min(rem[cid], rng.randint(1, 4))
                    slots += [cid] * n
                    rem[cid] -= n
            order = slots
        if a.get("early_comeback"):
            x = ids[0]
            rest = [c for c in order if c != x]
            nx = len(scripts[x]) - 2
            cutp = len(rest) * 2 // 3
            tailp = rest[cutp:]
            for _ in range(nx):
                tailp.insert(rng.randrange(len(tailp) + 1), x)
            order = [x, x] + rest[:cutp] + tailp
        refs_now = ref
        if tables and merges is None:
            order = list(order)
            cuts = sorted(rng.sample(range(len(order) // 4, max(len(order) // 4 + 2, len(order) * 3 // 4)), 2 if rng.random() < 0.4 else 1))
            for ri, c in enumerate(cuts):
                order.insert(c + ri, "R%d" % ri)
            # report requests somewhere after the first reload - in the interleaved run only: the solo references have none
            first_r = order.index("R0")
            for _ in range(rng.choice([0, 1, 2])):
                order.insert(rng.randrange(first_r + 1, len(order) + 1), rng.choice(["Q0", "Q1"]))
        if tables and any(isinstance(x, str) and x.startswith("R") for x in order):
            refs_now = {}
            for cid in ids:
                sp = []
                cnt = 0
                for x in order:
                    if x == cid:
                        cnt += 1
                    elif isinstance(x, str) and x.startswith("R"):
                        sp.append(cnt)
                c_, r_ = solo(cid, sp)
                if not r_.clean():
                    res["inconc"].append("daemon unclean in a solo run with reloads: %s" % (r_.describe(),))
                    return res
                refs_now[cid] = c_
            res["stats"]["merges_with_reload"] = res["stats"].get("merges_with_reload", 0) + 1
        hsh = vcommon.h(order)
        if hsh in seen:
            continue
        seen.add(hsh)
        run_merge.tables = tables
        conv, audits, r, n = run_merge(b, cfg, scripts, order)
        if "sample" not in res:
            res["sample"] = {"services": cfg.services, "scripts": {str(c): [short(x) for x in scripts[c]] for c in ids}, "interleaving": order,
                             "input_lines_head": list(run_merge.last_io[0][:30])}
        res["stats"]["merges_run"] += 1
        res["stats"]["steps"] += n
        res["stats"]["audits"] += len(audits)
        if not r.clean():
            res["inconc"].append("daemon unclean in a merged run: %s" % (r.describe(),))
            break
        for au in audits:
            if not au or not au[0].startswith("#verif audit ok"):
                res["viol"].append(("C07", "table-audit", "table-audit", "request table audit failed: %s (order %s)" % (au, order),
                                    {"config": cfgj, "seed": seed, "order": order}))
        if mi % 2 == 0 and not run_merge.had_reload:
            sent_lines, lock_out, cfg_ = run_merge.last_io
            why = batch_replay_differs(b, sent_lines, lock_out, cfg)
            res["stats"]["batch_replays"] = res["stats"].get("batch_replays", 0) + 1
            if why:
                res["viol"].append(("C07", "one-piece-delivery", "one-piece-delivery", "%s\ninterleaving: %s\ninput:\n%s" % (why, order, "\n".join(sent_lines[:80])),
                                    {"config": cfgj, "seed": seed, "order": order, "nclients": nclients, "length": length, "directed": a.get("directed"), "early_comeback": a.get("early_comeback"), "reload": a.get("reload"), "variant": a.get("variant", 0)}))
                break
        for cid in ids:
            res["stats"]["client_conversations_compared"] += 1
            if conv[cid] != refs_now[cid]:
                diff = first_diff(refs_now[cid], conv[cid])
                text = ("client %d's conversation differs between running alone and interleaved with clients %s\n%s\nscript of client %d: %s\ninterleaving: %s" % (
                    cid, [c for c in ids if c != cid], diff, cid, [short(x) for x in scripts[cid]], order))
                res["viol"].append(("C07", "conversation", "conversation:" + diff_class(refs_now[cid], conv[cid]), text,
                                    {"config": cfgj, "seed": seed, "order": order, "nclients": nclients, "length": length, "directed": a.get("directed"), "early_comeback": a.get("early_comeback"), "reload": a.get("reload"), "variant": a.get("variant", 0)}))
                break
        if res["viol"]:
            break
    res["stats"]["distinct_interleavings"] = len(seen)
    res["hashes"] = sorted(seen)
    return res


def short(act):
    return " ".join(str(v) for v in act.values())[:40]


def first_diff(a, b):
    for k in range(max(len(a), len(b))):
        x = a[k] if k < len(a) else None
        y = b[k] if k < len(b) else None
        if x != y:
            return "  alone:       %s\n  interleaved: %s" % (x, y)
    return ""


def diff_class(a, b):
    if any(x[0] == -1 for x in b):
        return "foreign-step"
    return "own-step"


def timer_neighbour_worker(a):
    """Real timers next to each other: B is announced and stays silent; A is announced a fraction of a second later, completes and is
    soft-held by an unanswered query.  Each request has its own 2 s timeout: A may be accepted only when ITS timeout has expired.  The
    wall clock is used one-sidedly - an acceptance read back earlier than 2 s after A's announcement was written is premature whatever
    the machine's load (delays only make it later)."""
    import time
    b, seed, gap = a["build"], a["seed"], a["gap"]
    rng = random.Random(seed)
    cfg = proto.Config([("login.svc", rng.choice(["login", "combined"]))], timeout=2)
    s = proto.Session(b, cfg, leaks=True)
    res = {"viol": [], "stats": {"timer_neighbour_runs": 1, "timer_neighbour_accepts_seen": 0}, "inconc": [], "hash": vcommon.h(["tn", seed, gap]), "hashes": []}
    ida, idb = rng.sample([3, 9, 40, 1029, 70000], 2)
    nb = a.get("neighbours", 1)
    ta = {}
    seen_at = {}
    try:
        for k in range(nb):
            s.do({"t": "announce", "id": idb + 100 * k, "ip": "192.0.2.%d" % (10 + k), "port": 1001})
            if rng.random() < 0.5:
                s.do({"t": "nick", "id": idb + 100 * k, "name": "nb"})
        # four soft-held clients follow, one every `gap` seconds
        for j in range(4):
            time.sleep(gap)
            cid = ida + 7 * j
            ta[cid] = time.monotonic()
            s.do({"t": "announce", "id": cid, "ip": "192.0.2.2", "port": 1002 + j})
            for ev in ({"t": "password", "id": cid, "text": "+x alice pw"}, {"t": "host", "id": cid, "name": "ha"}, {"t": "ident", "id": cid, "name": "ia"},
                       {"t": "nick", "id": cid, "name": "na"}, {"t": "userinfo", "id": cid, "user": "ua", "real": "A"}, {"t": "hurry", "id": cid}):
                s.do(ev)
        while time.monotonic() < max(ta.values()) + 2.8 and not s.dead and len(seen_at) < len(ta):
            time.sleep(0.05)
            out = s.do({"t": "noise", "line": "-1 M irc.example.net 1"})
            now = time.monotonic()
            for ln in out or []:
                c = proto.classify(ln)
                if c and c["kind"] == "client" and c["id"] in ta and c["cmd"] in "DR" and c["id"] not in seen_at:
                    seen_at[c["id"]] = now - ta[c["id"]]
                    res["stats"]["timer_neighbour_accepts_seen"] += 1
        s.finish()
    except Exception:
        s.kill()
        raise
    early = sorted((cid, t) for cid, t in seen_at.items() if t < 2.0 - TIMER_SLACK)
    if early:
        res["viol"].append(("C07", "neighbour-timer", "neighbour-timer",
                            "client %d, soft-held by an unanswered query, was accepted %.2f s after ITS announcement although the request timeout is 2 s; other clients had "
                            "been announced fractions of a second before it (%d silent ones first, then one every %.2f s: a timer of theirs fired for it)\n%s" % (
                                early[0][0], early[0][1], nb, gap, prun.render_trace(s.trace, 40)),
                            {"seed": seed, "gap": gap, "neighbours": nb, "timer_neighbour": True}))
    if len(seen_at) < len(ta):
        res["inconc"].append("a real-timer run saw %d of %d acceptances within 2.8 s" % (len(seen_at), len(ta)))
    return res


def run(chk, tier, scale=1.0):
    b = prun.build_daemon("c07-" + tier)
    tn = vcommon.pmap(timer_neighbour_worker, [dict(build=b, seed=chk.seed * 31 + k, gap=[0.08, 0.12, 0.17, 0.23][k % 4], neighbours=[1, 1, 3][k % 3])
                                               for k in range(int((12 if tier == "quick" else 96) * max(scale, 0.34)))])
    nsets = int((48 if tier == "quick" else 500) * scale)
    jobs = []
    import build as buildmod
    bplain = buildmod.build_daemon(buildmod.fresh_dir("c07p-" + tier), "plain")
    for i in range(nsets):
        rng = random.Random("c07/%d/%d" % (chk.seed, i))
        cfg = pcommon.random_config(rng, want_class=(rng.random() < 0.3))
        jobs.append(dict(build=b, config=cfg.to_json(), seed=rng.randrange(1 << 30), nclients=rng.choice([3, 4, 5, 6]), length=12,
                         nmerges=8 if tier == "quick" else 40, reload=(i % 3 == 1 and len(cfg.services) > 0)))
    # relayed texts that reach the output buffer's end, each interleaving also delivered in one piece
    for i in range(4 if tier == "quick" else 40):
        rng = random.Random("c07x/%d/%d" % (chk.seed, i))
        cfg = proto.Config([("login.svc", "login"), ("drone.svc", "dronecheck")], timeout=3600)
        jobs.append(dict(build=b, config=cfg.to_json(), seed=rng.randrange(1 << 30), nclients=3, length=12, nmerges=4 if tier == "quick" else 10, long_texts=0.7))
    # all 70 merges of two 4-event scripts
    for i in range(2 if tier == "quick" else 12):
        rng = random.Random("c07m/%d/%d" % (chk.seed, i))
        cfg = proto.Config([("login.svc", "login"), ("drone.svc", "dronecheck")], timeout=3600)
        jobs.append(dict(build=b, config=cfg.to_json(), seed=rng.randrange(1 << 30), nclients=2, length=3, nmerges=70, all_merges=True))
    # many concurrent clients
    for i in range(1 if tier == "quick" else 8):
        rng = random.Random("c07b/%d/%d" % (chk.seed, i))
        cfg = pcommon.random_config(rng, want_class=False)
        jobs.append(dict(build=b, config=cfg.to_json(), seed=rng.randrange(1 << 30), nclients=10, length=10, nmerges=3 if tier == "quick" else 10))
    # directed: a client that was answered leaves around a reload that removes the service another client still waits on
    for i in range(8 if tier == "quick" else 80):
        rng = random.Random("c07l/%d/%d" % (chk.seed, i))
        cfg = proto.Config([("chal.svc", rng.choice(["login", "login-ipr"])), ("keep.svc", "dronecheck")], timeout=3600)
        jobs.append(dict(build=b, config=cfg.to_json(), seed=rng.randrange(1 << 30), nclients=2, length=9, nmerges=1, directed="leaver-barrier", variant=i))
    for i in range(6 if tier == "quick" else 60):
        rng = random.Random("c07r/%d/%d" % (chk.seed, i))
        cfg = proto.Config([("chal.svc", rng.choice(["login", "login-ipr", "combined"])), ("keep.svc", "dronecheck")], timeout=3600)
        jobs.append(dict(build=b, config=cfg.to_json(), seed=rng.randrange(1 << 30), nclients=2, length=9, nmerges=1, directed="retry-barrier"))
    for i in range(8 if tier == "quick" else 80):
        rng = random.Random("c07n/%d/%d" % (chk.seed, i))
        cfg = proto.Config([("login.svc", rng.choice(["login", "login-ipr"]))], timeout=3600,
                           rules=[{"name": "a1", "xreply_ok": "login.svc", "class": "vouched"}, {"name": "z9", "class": "plain"}], use_class=True)
        # on the unsanitized build: there the allocator hands the leaver's block straight to the newcomer (ASan would quarantine it)
        jobs.append(dict(build=bplain, config=cfg.to_json(), seed=rng.randrange(1 << 30), nclients=2, length=12, nmerges=1, directed="leaver-then-newcomer", variant=i))
    for i in range(4 if tier == "quick" else 40):
        rng = random.Random("c07v/%d/%d" % (chk.seed, i))
        cfg = proto.Config([("login.svc", rng.choice(["login", "login-ipr", "combined"]))], timeout=3600)
        jobs.append(dict(build=b, config=cfg.to_json(), seed=rng.randrange(1 << 30), nclients=3, length=14, nmerges=6 if tier == "quick" else 20, directed="validated-then-stale"))
    for i in range(3 if tier == "quick" else 30):
        rng = random.Random("c07g/%d/%d" % (chk.seed, i))
        cfg = proto.Config([("login.svc", rng.choice(["login", "login-ipr"]))], timeout=3600,
                           rules=[{"name": "a_opers", "account": "oper*", "class": "opers"}, {"name": "b_gate", "address": ["10.0.0.0/8", "2001:db8::/32", "192.0.2.0/24"][i % 3], "class": "gate"},
                                  {"name": "c_rest", "class": "rest"}], use_class=True)
        jobs.append(dict(build=b, config=cfg.to_json(), seed=rng.randrange(1 << 30), nclients=3, length=12, nmerges=3, directed="gateway", variant=i))
    # many announcements (serials run into two hex digits) with ids that come back while a previous holder's answer is still under way
    for i in range(6 if tier == "quick" else 60):
        rng = random.Random("c07s/%d/%d" % (chk.seed, i))
        cfg = proto.Config([("login.svc", "login")] + ([("combo.svc", "combined")] if i % 2 else []), timeout=3600)
        jobs.append(dict(build=b, config=cfg.to_json(), seed=rng.randrange(1 << 30), nclients=rng.choice([18, 24, 30]), length=9, nmerges=3 if tier == "quick" else 8,
                         early_comeback=(i % 3 != 2)))
    res = vcommon.pmap(_worker_wrap, jobs)
    for r in tn:
        chk.add_case(r["hash"], True)
        chk.merge_counts(r["stats"])
        for w in r["inconc"]:
            chk.inconc(w)
        for (p, rule, sig, text, wit) in r["viol"]:
            chk.violation(Violation(p, rule, sig, text, wit))
    for r in res:
        for hsh in r["hashes"] or [r["hash"]]:
            chk.add_case(vcommon.h([r["hash"], hsh]), r["stats"]["client_conversations_compared"] > 0)
        chk.merge_counts(r["stats"])
        if r.get("sample"):
            chk.sample(r["sample"], limit=2)
        for w in r["inconc"]:
            chk.inconc(w)
        for (p, rule, sig, text, wit) in r["viol"][:2]:
            chk.violation(Violation(p, rule, sig, text, wit))
    chk.rule = ("k client scripts (3-6 clients x ~12 own events; 2 clients x 4 events with ALL 70 order-preserving merges; 10 clients) on distinct ids, replies addressed "
                "symbolically to 'what I await from service s'; each script is run alone (reference conversation) and in random / round-robin / bursty order-preserving "
                "interleavings; the projection of the daemon's output on each client (its id, X lines carrying its id; serial renumbered) grouped by the client's own events "
                "must equal the reference, and no line about a client may appear in another client's step; every second interleaving is also written to a fresh daemon in ONE piece "
                "(no sync lines) and must give the same stdout; guarded table audit every 50 steps; directed sets: a client that arrives after another was answered and left (it gets the leaver's memory); a leaver / a client that retries after AGAIN next to a client waiting on a service that a reload removes; a holder answered AGAIN / MORE whose id comes back and receives the late answer to the first holder; real-timer runs (2 s timeout, no hook-driven expiry): four soft-held clients announced 0.1-0.2 s apart after one or three silent ones must each not be accepted before ITS OWN 2 s are over (one-sided wall clock); a third of the sets has 1-2 SIGUSR1 reloads switching the service table at a fixed "
                "place of every client's script (solo reference with the reloads at the same places); scripts may re-use their id while a query of the previous holder is unanswered "
                "and then receive the late answer to the previous holder; sets of 18-30 clients drive the serials into two hex digits; "
                "a case = one interleaving of one script set (distinct by hash); non-trivial = conversations were compared")
    # bursts: hundreds of clients given the same lines in one write (half of the runs over a shared socket, the reader falling
    # behind): what the daemon says about each of them is the same, whoever came before or after
    pcommon.fold_bursts(chk, "C07", tier, scale, b, 971)
    chk.require("burst_conversations_compared", 500 * min(1.0, scale))
    chk.require("distinct_interleavings", 300 * min(1.0, scale))
    chk.require("client_conversations_compared", 1000 * min(1.0, scale))
    chk.require("audits", 100 * min(1.0, scale))


def _worker_wrap(a):
    if a.get("all_merges"):
        # enumerate every order-preserving merge of two scripts of 4 actions (announce + 3)
        rng = random.Random(a["seed"])
        ids = rng.sample(IDPOOL, 2)
        merges = []
        for pos in itertools.combinations(range(8), 4):
            merges.append([ids[0] if k in pos else ids[1] for k in range(8)])
        a = dict(a)
        a["merges"] = merges
    return _worker(a)


def replay(chk, rep):
    b = prun.build_daemon("c07-replay")
    w = rep["witness"]
    if w.get("burst"):
        return pcommon.replay_burst(chk, w, "C07", "c07-replay")
    if w.get("timer_neighbour"):
        r = timer_neighbour_worker(dict(build=b, seed=w["seed"], gap=w["gap"], neighbours=w["neighbours"]))
        for v in r["viol"]:
            print(v[3])
        return 1 if r["viol"] else 0
    a = dict(build=b, config=w["config"], seed=w["seed"], nclients=w.get("nclients", 3), length=w.get("length", 12), nmerges=1, merges=[w["order"]],
             directed=w.get("directed"), early_comeback=w.get("early_comeback"), reload=w.get("reload"), variant=w.get("variant", 0))
    if w.get("directed") == "leaver-then-newcomer":
        import build as buildmod
        a["build"] = buildmod.build_daemon(buildmod.fresh_dir("c07p-replay"), "plain")
    r = _worker(a)
    for v in r["viol"]:
        print(v[3])
    return 1 if r["viol"] else 0
