"""C10 - request bookkeeping balances over any history (DESIGN.md C10)."""
import random
import time

import gen
import monitor
import proto
import prun
import vcommon
from checks import pcommon
from vcommon import Violation

LEVEL = "exploration"
PROPS = ["C10"]


def long_worker(a):
    """One long pipelined history with predicted tags (no lock-step needed)."""
    b, seed, nev, nconc = a["build"], a["seed"], a["n"], a["nconc"]
    rng = random.Random(seed)
    services = [("login.svc", "login"), ("drone.svc", "dronecheck")] if rng.random() < 0.7 else gen.service_tables(rng, 2)
    cfg = proto.Config(services, timeout=rng.choice([None, 3600]))
    f = gen.Fields(rng, boundary=0.05)
    events = []
    live = {}      # id -> serial
    serial = 0
    ids = list(range(1, nconc * 2 + 1))
    while len(events) < nev:
        r = rng.random()
        if r < 0.22 or not live:
            cid = rng.choice(ids)
            serial += 1
            live[cid] = serial      # re-announcing a live id replaces it
            events.append({"t": "announce", "id": cid, "ip": rng.choice(gen.IPS4 + gen.IPS6), "port": 1024 + (cid % 60000)})
        elif r < 0.26:
            events.append({"t": "stats"})
        else:
            cid = rng.choice(list(live)) if rng.random() < 0.97 else rng.choice(ids)
            k = rng.random()
            if k < 0.5:
                it = rng.choice(["host", "ident", "nick", "userinfo"])
                ev = {"host": {"t": "host", "id": cid, "name": "h.example"}, "ident": {"t": "ident", "id": cid, "name": "joe"},
                      "nick": {"t": "nick", "id": cid, "name": "n%d" % cid}, "userinfo": {"t": "userinfo", "id": cid, "user": "u", "real": "r n"}}[it]
                events.append(ev)
            elif k < 0.6:
                events.append({"t": "password", "id": cid, "text": f.password(True)})
            elif k < 0.8 and cid in live:
                sv = rng.choice(services)[0]
                events.append({"t": "reply", "svc": sv, "tag": "%x_%x" % (cid, live[cid]), "text": gen.reply_text(rng, rng.choice(["OK", "OKacct", "NO", "OK"]))})
            elif k < 0.88:
                events.append({"t": "hurry", "id": cid})
            elif k < 0.95:
                events.append({"t": "disconnect", "id": cid})
                live.pop(cid, None)
            else:
                events.append({"t": "registered", "id": cid})
                live.pop(cid, None)
        if len(live) > nconc:
            cid = rng.choice(list(live))
            events.append({"t": "disconnect", "id": cid})
            live.pop(cid, None)
    events.append({"t": "stats"})
    # sock: over ONE socket that is the daemon's standard input and output, the reader falling behind (the way an IRC server runs it)
    s = proto.Session(b, cfg, leaks=True, transport="socketpair" if a.get("sock") else None)
    try:
        outs = s.d.steps([proto.render(e) for e in events], lazy=bool(a.get("sock")))
        s.trace.steps = list(zip(events, outs))
        res = s.finish()
    except Exception as ex:
        try:
            res = s.finish()
        except Exception:
            s.kill()
            raise
        s.trace.steps = []
        r = prun.post(s, b, cfg, PROPS, seed, do_shrink=False)
        if not r["crash"]:
            # the acknowledgements did not all arrive within the watchdog time although the daemon exits cleanly: nothing was judged
            r["hung"] = "%s: %s" % (type(ex).__name__, str(ex)[:200])
        return r
    return prun.post(s, b, cfg, PROPS, seed, do_shrink=False)


def mass_pending_worker(a):
    """End of input with a very large number of requests still pending, announced with ascending (or descending) ids - descriptor
    numbers while a server fills up - and nothing else: the request table is then one chain as deep as the table.  Everything is
    released, the exit is clean, and `? stats` just before says how many there are."""
    import daemon
    b, n, desc = a["build"], a["n"], a["desc"]
    cfg = proto.Config([("drone.svc", "dronecheck")] if a.get("service") else [], timeout=None)
    ids = range(n, 0, -1) if desc else range(1, n + 1)
    data = ("".join("%d C 10.%d.%d.%d 1 10.0.0.1 1\n" % (k, (k >> 16) & 255, (k >> 8) & 255, k & 255) for k in ids) + "-1 ? stats\n").encode("latin-1")
    out, r = daemon.run_batch(b, cfg.text(b["moddir"]), data, leaks=True, timeout=300)
    viol = []
    m_ = [l for l in out if l.startswith("S iauth :")]
    stats = {"mass_pending_runs": 1, "mass_pending_requests_at_end_of_input": n}
    wit = {"mass_pending": True, "n": n, "desc": desc, "service": bool(a.get("service"))}
    if not r.clean():
        ev = r.crash_events()
        viol.append(("C10", "crash", "crash:%s|%s" % (ev[0] if ev else ("unclean", "?")), "end of input with %d requests pending (ids announced in %s order, nothing else said): %s\n%s" % (
            n, "descending" if desc else "ascending", r.describe(), r.stderr[-1500:]), wit))
    elif not m_ or ("%d-0 reqs alloc, %d in use" % (n, n)) not in m_[-1]:
        viol.append(("C10", "in-use", "in-use:mass", "%d clients announced and none withdrawn; statistics say %r" % (n, m_[-1:] or out[-3:]), wit))
    return {"viol": viol, "stats": stats, "crash": [], "nontrivial": True, "sample": None, "nsteps": n, "hash": vcommon.h(["mass", n, desc]), "config": cfg.to_json(), "events": None}


def timer_worker(a):
    """Real one-second timers: finished clients must never be touched by their timers again."""
    b, seed = a["build"], a["seed"]
    rng = random.Random(seed)
    services = [("login.svc", "login"), ("drone.svc", "dronecheck")]
    cfg = proto.Config(services, timeout=1)
    s = proto.Session(b, cfg, leaks=True)
    stats_lines = []
    try:
        for rnd in range(a["rounds"]):
            base = 100 * rnd
            late = []
            # clients finished in every possible way before their timer expires
            for k in range(36):
                cid = base + k + 1
                s.do({"t": "announce", "id": cid, "ip": "10.1.2.%d" % (k + 1), "port": 2000 + k})
                how = k % 9
                if how == 8:
                    # complete and soft-held (query unanswered), then the id is announced again (the old request is replaced); the
                    # newcomer is withdrawn: the replaced request's timer must be gone with it
                    for ev in ({"t": "host", "id": cid, "name": "h"}, {"t": "ident", "id": cid, "name": "i"}, {"t": "nick", "id": cid, "name": "n"},
                               {"t": "userinfo", "id": cid, "user": "u", "real": "r"}):
                        s.do(ev)
                    s.do({"t": "announce", "id": cid, "ip": "10.7.7.%d" % (k + 1), "port": 3000 + k})
                    s.do({"t": "registered" if k % 2 else "disconnect", "id": cid})
                elif how == 0:
                    s.do({"t": "disconnect", "id": cid})
                elif how == 1:
                    s.do({"t": "registered", "id": cid})
                elif how == 2:
                    s.do({"t": "hurry", "id": cid})                       # accepted or soft-done
                    st = s.open.get(cid)
                    if st and "drone.svc" in st["awaiting"]:
                        s.do({"t": "reply", "svc": "drone.svc", "tag": st["tag"], "text": "OK"})
                elif how == 3:
                    s.do({"t": "announce", "id": cid, "ip": "10.1.2.%d" % (k + 1), "port": 2000 + k})   # replaced while live
                    s.do({"t": "disconnect", "id": cid})
                elif how == 4:
                    s.do({"t": "password", "id": cid, "text": "+x alice pw"})
                    st = s.open.get(cid)
                    if st and st["tag"] and k >= 18:
                        # told to retry / challenged, and withdrawn before anything else: whatever the challenge did to the request's
                        # timer, nothing of it is left when the request is gone
                        s.do({"t": "reply", "svc": "login.svc", "tag": st["tag"], "text": ["AGAIN try again", "MORE prove it"][k % 2]})
                        s.do({"t": ["disconnect", "registered"][(k // 2) % 2], "id": cid})
                    elif st and st["tag"]:
                        s.do({"t": "reply", "svc": "login.svc", "tag": st["tag"], "text": "NO denied"})
                elif how in (6, 7):
                    # soft-done with a query outstanding, then withdrawn / registered before any verdict:
                    # its timer must die with it
                    for ev in ({"t": "host", "id": cid, "name": "h"}, {"t": "ident", "id": cid, "name": "i"}, {"t": "nick", "id": cid, "name": "n"},
                               {"t": "userinfo", "id": cid, "user": "u", "real": "r"}):
                        s.do(ev)
                    if k >= 24:
                        late.append({"t": "disconnect" if how == 6 else "registered", "id": cid})
                    else:
                        s.do({"t": "disconnect" if how == 6 else "registered", "id": cid})
                else:
                    # left waiting on purpose: all data, query unanswered -> the real timer accepts it
                    for ev in ({"t": "host", "id": cid, "name": "h"}, {"t": "ident", "id": cid, "name": "i"}, {"t": "nick", "id": cid, "name": "n"},
                               {"t": "userinfo", "id": cid, "user": "u", "real": "r"}):
                        s.do(ev)
            s.do({"t": "stats"})
            # the withdrawal / registration of the last soft-done clients is the very last thing the daemon reads before the
            # silence (no sync line after it): nothing may speak for them when their timers would have expired
            for ev in late:
                s.do_nosync(ev)
            time.sleep(1.6)
            s.do({"t": "stats"})
            s.do({"t": "audit"})
        res = s.finish()
    except Exception:
        s.kill()
        raise
    r = prun.post(s, b, cfg, a.get("props") or ["C10", "C01"], seed, do_shrink=False)
    r["stats"]["real_timer_rounds"] = a["rounds"]
    # timer-driven acceptances: clients of kind 5 must have been accepted by their timers
    timer_accepts = 0
    for ev, out in s.trace.steps:
        if ev["t"] == "stats":
            timer_accepts += sum(1 for l in out if l.startswith("D "))
    r["stats"]["timer_driven_accepts"] = timer_accepts
    return r


def timeout_switch_worker(a):
    """The request timeout is switched on or off by a reload while requests are live: a request keeps the timer it was given (or
    none) until it goes, whichever way the setting reads by then.  All clients stay incomplete, so no verdict is due; the counts
    must follow and the exit must be clean (no crash on a request without a timer, no timer left behind on a freed one)."""
    b, seed, up = a["build"], a["seed"], a["up"]
    rng = random.Random(seed)
    svcs = [("login.svc", "login")]
    cfg = proto.Config(svcs, timeout=(rng.choice([None, 0]) if up else 1))
    s = proto.Session(b, cfg, leaks=True)
    try:
        first = [11, 12, 13, 14, 15, 16]
        for cid in first:
            s.do({"t": "announce", "id": cid, "ip": "10.3.3.%d" % cid, "port": 4000 + cid})
            if cid % 2:
                s.do({"t": "nick", "id": cid, "name": "n%d" % cid})
        s.do({"t": "stats"})
        s.do({"t": "reload", "services": [list(x) for x in svcs], "timeout": (1 if up else 0)})
        # a client of before the switch sends its password (and a second one) under the new setting: the service is asked, the client
        # stays incomplete; its request has the timer it was given at its announcement - or none
        s.do({"t": "password", "id": first[4], "text": "+x acct pw"})
        s.do({"t": "password", "id": first[4], "text": "+x acct pw2"})
        s.do({"t": "host", "id": first[5], "name": "h.example"})
        for cid in first[:3]:
            s.do({"t": rng.choice(["disconnect", "registered"]), "id": cid})
        s.do({"t": "stats"})
        for cid in (21, 22):
            s.do({"t": "announce", "id": cid, "ip": "10.3.4.%d" % cid, "port": 4000 + cid})
        time.sleep(1.6)
        s.do({"t": "stats"})
        s.do({"t": "announce", "id": first[3], "ip": "10.3.5.1", "port": 4100})      # one of the old ones is announced again
        for cid in first[3:] + [21, 22]:
            if cid in s.open:
                s.do({"t": rng.choice(["disconnect", "registered"]), "id": cid})
        s.do({"t": "stats"})
        s.finish()
    except Exception:
        s.kill()
        raise
    r = prun.post(s, b, cfg, ["C10"], seed, do_shrink=False)
    r["stats"]["timeout_switch_runs"] = 1
    return r


def run(chk, tier, scale=1.0):
    b = prun.build_daemon("c10-" + tier)
    n = int((32 if tier == "quick" else 600) * scale)
    jobs = []
    for i in range(n):
        rng = random.Random("c10/%d/%d" % (chk.seed, i))
        nids = rng.choice([5, 20, 100, 500])
        cfg = pcommon.random_config(rng, want_class=(rng.random() < 0.2))
        idl = list(range(1, nids + 1))
        if i % 3 == 1:
            idl = idl[:max(3, nids - 7)] + [-2147483648, -2000000000, 2000000000, 2147483647, -2, 1 + (1 << 20), 0]
        jobs.append(dict(build=b, config=cfg.to_json(), seed=rng.randrange(1 << 30), n=3000, ids=idl, props=PROPS,
                         opts={"weights": {"stats": 6, "announce": 14, "reannounce": 5, "disconnect": 6, "registered": 3, "stray": 2, "noise": 3}, "max_open": nids},
                         leaks=True, shrink=False, want_sample=(i < 2)))
    # requests that grow old (more than ten seconds pending; statistics then list them one by one) and are withdrawn afterwards:
    # two idle runs in the background, without a request timeout and with a long one
    from checks import c09
    old_bg = vcommon.Background(c09._old_requests_worker, [dict(build=b, seed=chk.seed * 13 + k, n=4, timeout=[None, 3600, 0][k % 3], leaks=True, then_withdraw=True, props=PROPS)
                                                           for k in range(2 if tier == "quick" else 6)], nproc=6)
    res = vcommon.pmap(prun.hist_worker, jobs)
    prun.fold(chk, "C10", res, crash_is_violation=True)
    for rs in vcommon.pmap(pcommon.script_worker, pcommon.collision_jobs(b, chk.seed, PROPS, int((120 if tier == "quick" else 3000) * scale))):
        prun.fold(chk, "C10", rs, crash_is_violation=True)
    longs = [dict(build=b, seed=chk.seed * 77 + k, n=int((200000 if tier == "quick" else 2000000) * scale) // (1 if k == 0 else 4),
                  nconc=(500 if tier == "quick" else 5000) // (1 if k == 0 else 10), sock=(k % 2 == 1)) for k in range(2 if tier == "quick" else 4)]
    timers = [dict(build=b, seed=chk.seed * 99 + k, rounds=2) for k in range(4 if tier == "quick" else 64)]
    lres = vcommon.pmap(long_worker, longs) if longs else []
    prun.fold(chk, "C10", lres, crash_is_violation=True)
    for r in lres:
        if r.get("hung"):
            chk.inconc("a long pipelined history was not acknowledged to its end within the watchdog time (%s); nothing judged" % r["hung"])
    chk.count("long_history_events", sum(r["nsteps"] for r in lres))
    tres = vcommon.pmap(timer_worker, timers)
    prun.fold(chk, "C10", tres, crash_is_violation=True)
    prun.fold(chk, "C10", vcommon.pmap(timeout_switch_worker, [dict(build=b, seed=chk.seed * 17 + k, up=(k % 2 == 0)) for k in range(4 if tier == "quick" else 32)]),
              crash_is_violation=True)
    mres = vcommon.pmap(mass_pending_worker, [dict(build=b, n=n_, desc=d_, service=False) for n_ in ([200000] if tier == "quick" else [200000, 600000]) for d_ in (0, 1)])
    prun.fold(chk, "C10", mres, crash_is_violation=True)
    ores = old_bg.results()
    prun.fold(chk, "C10", ores, crash_is_violation=True)
    chk.require("old_request_lines", 3)
    chk.count("clean_exits_with_leak_check", len(res) + len(lres) + len(tres) - chk.observed.get("daemon_unclean", 0))
    # the module interface no shipped module uses (set address / host name / user name, challenge, kill, accept, holds ...), driven
    # through the fixture module site_api and compared line for line with a model of the core (lib/sitemodel.py)
    import sitemodel
    sitemodel.fold_site(chk, "C10", tier, scale, 1033, ('C10', 'crash'))
    chk.rule = ("(1) random lock-step histories of 3000 events over 5..500 ids with `? stats` at random points: the reported 'in use' must equal the number of clients "
                "announced and not withdrawn / registered / decided (re-announcement replaces); (2) one pipelined history of %s events with up to %s concurrent clients; "
                "(5) the request timeout switched on / off by a reload while requests are live; (4) requests left pending for 11 s (statistics list them as old), then withdrawn one by one with statistics in between; (3) real-timer runs (timeout 1 s): clients finished by D, T, verdict, refusal or replaced by re-announcement, then 1.6 s idle - a timer of a finished request "
                "firing shows as use-after-free, as output naming a closed client, or as a leaked event; every run must end with exit 0 and a clean LeakSanitizer report; "
                "distinct = input stream; non-trivial = at least one verdict" % ("200 000" if tier == "quick" else "2 000 000", "500" if tier == "quick" else "5000"))
    chk.require("stats_checks", 3000 * min(1.0, scale))
    chk.require("clean_exits_with_leak_check", 30 * min(1.0, scale))
    chk.require("timer_driven_accepts", 10)
    chk.assumptions += ["LeakSanitizer decides 'released'", "real-timer runs wait 1.6 s of wall clock only to let timers expire; no verdict depends on timing"]


def replay(chk, rep):
    if rep["witness"].get("mass_pending"):
        w = rep["witness"]
        r = mass_pending_worker(dict(build=prun.build_daemon("c10-replay"), n=w["n"], desc=w["desc"], service=w.get("service")))
        for v in r["viol"]:
            print(v[3])
        return 1 if r["viol"] else 0
    if rep["witness"].get("site"):
        import sitemodel
        return sitemodel.replay_site(chk, rep["witness"], "C10", ('C10', 'crash'))
    return prun.replay_witness(chk, rep, PROPS)
