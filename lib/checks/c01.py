"""C01 - one verdict per announced client, then silence (DESIGN.md C01)."""
import itertools
import os
import random
import re

import monitor
import proto
import prun
import vcommon
from checks import pcommon
from vcommon import Violation

LEVEL = "exploration"
PROPS = ["C01"]

SCRIPT_CFG = proto.Config([("combo.svc", "combined")], timeout=3600)
SCRIPT = [
    {"t": "announce", "id": 5, "ip": "1.2.3.4", "port": 1000},
    {"t": "hurry", "id": 5},
    {"t": "reply", "svc": "combo.svc", "tag": "5_1", "text": "OK"},
    {"t": "disconnect", "id": 5},
    {"t": "announce", "id": 5, "ip": "1.2.3.4", "port": 1000},
    {"t": "hurry", "id": 5},
    {"t": "reply", "svc": "combo.svc", "tag": "5_2", "text": "OK alice"},
]


def _perm_worker(a):
    build, perms = a
    out = []
    stats = {}
    for perm in perms:
        events = [SCRIPT[k] for k in perm]
        # the second announcement in the permuted order gets serial 2: rename the two announcements accordingly
        tr = prun.replay_events(build, SCRIPT_CFG, events)
        viol, st = monitor.analyze(tr)
        for k, v in st.items():
            stats[k] = stats.get(k, 0) + v
        for v in viol:
            if v.prop in PROPS:
                out.append((v.prop, v.rule, v.sig, "%s\nhistory:\n%s" % (v.text, prun.render_trace(tr)),
                            {"config": SCRIPT_CFG.to_json(), "events": events}))
        if tr.result and (tr.result["exit"] != 0 or tr.result["sanitizer"]) and [x for x in tr.result["sanitizer"] if x[0] != "leak"] != [] or (
                tr.result and tr.result["exit"] not in (0, 97)):
            out.append(("crash", "crash", "crash", "daemon failed on permutation %s: %s" % (perm, tr.result), None))
    return out, stats, [(list(p), True) for p in perms]


def write_order_worker(a):
    """When does a verdict reach the server?  A client that waits on an unanswered query is accepted by its real request timer (1 s)
    while the server says nothing; then the server withdraws it (`D`).  The daemon runs under strace: if the verdict's write(2)
    comes AFTER the read(2) that delivered the withdrawal, the server was given a verdict for a client it had already withdrawn.
    The order of two system calls of one single-threaded process decides - no clock: a timer that is late fires after the
    withdrawal, finds nothing, and no verdict is written at all (not judged)."""
    import time
    import daemon
    import build as buildmod
    b, seed = a["build"], a["seed"]
    rng = random.Random(seed)
    cid = rng.choice([5, 9, 70000])
    how = a["how"]
    cfg = proto.Config([("login.svc", "login")], timeout=1)
    res = {"viol": [], "stats": {"write_order_runs": 1, "write_order_verdicts_by_timer": 0, "write_order_judged": 0}, "inconc": [], "hash": vcommon.h(["write-order", seed, how]), "nontrivial": False}
    d = daemon.Daemon(b, cfg.text(b["moddir"]), leaks=False, keep=True, wrapper=("strace", "-f", "-qq", "-s", "300", "-e", "trace=read,readv,write,writev", "-o", "strace.out"))
    try:
        d.start()
        for ln in ["%d C 192.0.2.7 1000 10.0.0.1 6667" % cid, "%d P :+x alice pw" % cid, "%d N h.example" % cid, "%d u id" % cid, "%d n nick" % cid, "%d U u x y :R" % cid]:
            d.step(ln)
        time.sleep(a.get("wait", 1.9))      # the server says nothing; the timer (1 s) has long expired on an idle machine
        last = {"disconnect": "%d D" % cid, "registered": "%d T" % cid, "reannounce": "%d C 192.0.2.8 1001 10.0.0.1 6667" % cid}[how]
        d.step(last)
        d.step("-1 ? stats")
        r = d.finish()
        with open(os.path.join(d.dir, "strace.out"), "r", encoding="latin-1") as f:
            calls = f.read().split("\n")
    except (daemon.Died, daemon.Hang, OSError) as ex:
        d.kill()
        import shutil
        shutil.rmtree(d.dir, ignore_errors=True)
        res["inconc"].append("write-order run failed: %r" % (ex,))
        return res
    import shutil
    shutil.rmtree(d.dir, ignore_errors=True)
    if not r.clean():
        res["inconc"].append("daemon unclean in a write-order run under strace (%s)" % (r.describe(),))
        return res
    iw = next((i for i, c in enumerate(calls) if re.search(r"\bwritev?\(1, .*\"[DR] %d 192\.0\.2\.7 " % cid, c)), None)
    ir = next((i for i, c in enumerate(calls) if re.search(r"\breadv?\(0, .*(\"|\\n)%s\\n" % re.escape(last), c)), None)
    if ir is None:
        res["inconc"].append("write-order run: the read of %r is not in the system-call log" % last)
        return res
    if iw is None:
        return res          # the timer had not fired when the withdrawal came (loaded machine): nothing to judge
    res["stats"]["write_order_verdicts_by_timer"] = 1
    res["stats"]["write_order_judged"] = 1
    res["nontrivial"] = True
    if iw > ir:
        res["viol"].append(("C01", "verdict-after-withdrawal", "verdict-after-withdrawal:written-late:" + how,
                            "client %d was accepted by its request timer while the server was silent, but the verdict was only WRITTEN after the daemon had read the server's %r: "
                            "system calls in order:\n  %s" % (cid, last, "\n  ".join(c[:200] for c in calls[max(0, ir - 3):iw + 2])), {"write_order": True, "seed": seed, "how": how}))
    return res


def run(chk, tier, scale=1.0):
    b = prun.build_daemon("c01-" + tier)
    n = int((480 if tier == "quick" else 20000) * scale)
    opts = {"weights": {"reannounce": 6, "stray": 10, "disconnect": 5, "registered": 3, "timeout": 5, "reply": 24}}
    jobs = pcommon.hist_jobs(b, n, chk.seed, PROPS, opts=opts, tag="c01")
    # a quarter of the histories run on an unsanitized build: a second verdict written from a request that was already
    # freed aborts the sanitized daemon before the line appears (C08's concern); here it shows as what it writes
    import build as buildmod
    bplain = buildmod.build_daemon(buildmod.fresh_dir("c01p-" + tier), "plain")
    for k, j in enumerate(jobs):
        if k % 4 == 3:
            j["build"] = bplain
            j["config"] = pcommon.random_config(__import__("random").Random("c01p/%d/%d" % (chk.seed, k)), want_class=True).to_json()
    chk.count("histories_on_unsanitized_build", len([1 for k in range(len(jobs)) if k % 4 == 3]))
    # one or two clients with long lives: several passwords (hold taken, released, taken again), bare OK / AGAIN answers, the
    # request timer firing in between - what is latched per request (the soft-done notice) has to survive all of it
    import random as _random
    import proto as _proto
    dense = {"weights": {"password": 30, "timeout": 14, "reply": 30, "hurry": 8, "data": 14, "announce": 3, "reannounce": 1, "disconnect": 1, "registered": 1, "stray": 2,
                         "unlinked": 2, "stats": 1, "dupdata": 2}, "reply_kinds": ["OK", "OK", "AGAIN", "MORE", "OKacct", "junk"], "wellformed_pw": 0.95}
    djobs = pcommon.hist_jobs(b, int((160 if tier == "quick" else 6000) * scale), chk.seed, PROPS, opts=dense, tag="c01d", ids_pool=(5, 6), n_events=70, reload_share=0.1,
                              cfg_fn=lambda r: _proto.Config([("login.svc", r.choice(["login", "login-ipr", "combined"]))] + ([("drone.svc", "dronecheck")] if r.random() < 0.3 else []),
                                                             timeout=r.choice([3600, 3600, None])))
    jobs += djobs
    chk.count("dense_single_client_histories", len(djobs))
    res = vcommon.pmap(prun.hist_worker, jobs, chunksize=4)
    prun.fold(chk, "C01", res)
    # directed: two clients whose ids agree in their low bits, live at the same time (half on the unsanitized build)
    for rs in vcommon.pmap(pcommon.script_worker, pcommon.collision_jobs(b, chk.seed, PROPS, int((160 if tier == "quick" else 4000) * scale), plain=bplain)):
        prun.fold(chk, "C01", rs)
    for rs in vcommon.pmap(pcommon.script_worker, pcommon.reload_jobs(b, chk.seed, PROPS, int((180 if tier == "quick" else 4500) * scale), tag="rls1")):
        prun.fold(chk, "C01", rs)
    # bursts on the unhooked channel: many clients decided within one write, with more lines about them right behind (judged on
    # the output stream alone: exactly one verdict per id, nothing about an id after its verdict)
    for r in vcommon.pmap(pcommon.burst_worker, [dict(build=b, seed=chk.seed * 991 + k, n=[30, 100, 250][k % 3], service=(k % 2 == 1), after=True)
                                                 for k in range(int((9 if tier == "quick" else 150) * scale) or 1)]):
        chk.add_case(r["hash"], r["nontrivial"])
        chk.merge_counts(r["stats"])
        for w in r["inconc"]:
            chk.inconc(w)
        for (p, rule, sig, text, wit) in r["viol"]:
            if p == "C01":
                chk.violation(Violation(p, rule, sig, text, wit))
    # when a verdict produced by the request timer is written, relative to the read of the server's withdrawal (system-call order under strace)
    wjobs = [dict(build=bplain, seed=chk.seed * 70 + k, how=["disconnect", "registered", "reannounce"][k % 3], wait=[1.9, 2.6][k % 2]) for k in range(6 if tier == "quick" else 36)]
    import subprocess
    try:
        strace_ok = subprocess.run(["strace", "-qq", "-o", "/dev/null", "true"], stdout=subprocess.DEVNULL, stderr=subprocess.DEVNULL, timeout=20).returncode == 0
    except Exception:
        strace_ok = False
    if not strace_ok:
        # (where tracing is not permitted this sub-oracle observes nothing; said in the evidence, the rest of the check stands)
        chk.count("write_order_runs_skipped_no_strace", len(wjobs))
        chk.assumptions += ["strace could not trace a process here: the write-order oracle did not run"]
        wjobs = []
    for r in vcommon.pmap(write_order_worker, wjobs):
        chk.add_case(r["hash"], r["nontrivial"])
        chk.merge_counts(r["stats"])
        for w in r["inconc"]:
            chk.inconc(w)
        for (p, rule, sig, text, wit) in r["viol"]:
            chk.violation(Violation(p, rule, sig, text, wit))
    if strace_ok:
        chk.require("write_order_judged", 2)
    # exhaustive orders of a 7-event script: two instances of one id, queries, replies, disconnect
    perms = list(itertools.permutations(range(len(SCRIPT))))
    if tier == "quick":
        perms = perms[chk.seed % 3::3]
    work = [(b, perms[i:i + 60]) for i in range(0, len(perms), 60)]
    for out, stats, np in vcommon.pmap(_perm_worker, work):
        chk.count("script_permutations", len(np))
        for pm, nt in np:
            chk.add_case(vcommon.h(["perm", pm]), nt)
        for (p, rule, sig, text, wit) in out[:3]:
            if p == "crash":
                chk.inconc(text)
            else:
                chk.violation(Violation(p, rule, sig, text, wit))
        chk.merge_counts({k: v for k, v in stats.items() if k in ("verdicts", "lines", "reannounce_live", "replies_stray", "post_close_replies")})
    # real one-second timers: a timer must never speak for a client that was withdrawn, registered, decided or replaced
    from checks import c10
    tres = vcommon.pmap(c10.timer_worker, [dict(build=(bplain if k % 2 else b), seed=chk.seed * 31 + k, rounds=1, props=PROPS) for k in range(2 if tier == "quick" else 16)])
    prun.fold(chk, "C01", tres)
    # the module interface no shipped module uses (set address / host name / user name, challenge, kill, accept, holds ...), driven
    # through the fixture module site_api and compared line for line with a model of the core (lib/sitemodel.py)
    import sitemodel
    sitemodel.fold_site(chk, "C01", tier, scale, 1009, ('C01',))
    chk.rule = ("random lock-step histories (%d events) over 3-5 ids with heavy reuse: announce / re-announce while live / data / passwords / hurry-up / "
                "replies of every kind / stale, duplicate and malformed-tag replies / hook-fired timeouts / disconnect / registered, with and without the class "
                "module and a timeout; plus %s orders of a 7-event script (two instances of one id); per-client automaton judges every output line; "
                "distinct = hash of (config, input lines); non-trivial = the history produced at least one verdict" % (120, "all 5040" if tier != "quick" else "1680 of the 5040") + "; plus real-timer runs (timeout 1 s) in which 30 clients end in every possible way and the daemon then idles 1.6 s")
    chk.require("verdicts", 1000 * min(1.0, scale))
    chk.require("reannounce_live", 100 * min(1.0, scale))
    chk.require("post_close_replies", 100 * min(1.0, scale))
    chk.assumptions += ["output is attributed to input lines by the guarded sync pseudo-command", "ids are never -1; announcements carry 4 parameters"]


def replay(chk, rep):
    if rep["witness"].get("write_order"):
        import build as buildmod
        w = rep["witness"]
        r = write_order_worker(dict(build=buildmod.build_daemon(buildmod.fresh_dir("c01p-replay"), "plain"), seed=w["seed"], how=w["how"]))
        for v in r["viol"]:
            print(v[3])
        return 1 if r["viol"] else 0
    if rep["witness"].get("site"):
        import sitemodel
        return sitemodel.replay_site(chk, rep["witness"], "C01", ('C01',))
    w = rep["witness"]
    if w.get("burst"):
        r = pcommon.burst_worker(dict(build=prun.build_daemon("c01-replay"), seed=w["seed"], n=w["n"], service=w["service"], after=w.get("after"), sock=w.get("sock"), pad4096=w.get("pad4096")))
        for v in r["viol"]:
            print(v[3])
        return 1 if r["viol"] else 0
    return prun.replay_witness(chk, rep, PROPS)
