"""C13 - netmask parsing and matching are exact (DESIGN.md C13)."""
import re

import build
import hrun
import vcommon
from checks import c12

LEVEL = "exploration"


def run(chk, tier, scale=1.0):
    exe = c12.build_exe("c13-" + tier)
    seed = chk.seed
    jobs = []
    if tier == "thorough":
        for g in range(8):
            jobs.append((exe, ["mask-exhaust", str(g)], None, 7200))
    nmask = int((1600000 if tier == "quick" else 16000000) * scale)
    ngram = int((400000 if tier == "quick" else 6000000) * scale)
    nmut = int((800000 if tier == "quick" else 16000000) * scale)
    for i in range(8):
        jobs.append((exe, ["mask-random", str(seed * 100 + i), str(nmask // 8)], None, 3600))
    for i in range(4):
        jobs.append((exe, ["pton-grammar", str(seed * 100 + i), str(ngram // 4)], None, 3600))
    for i in range(8):
        jobs.append((exe, ["pton-mutate", str(seed * 100 + i), str(nmut // 8)], None, 3600))
    maxlen = "6" if tier == "quick" else "8"
    jobs.append((exe, ["pton-strings", maxlen, "-1"], None, 60))
    for first in range(9):
        jobs.append((exe, ["pton-strings", maxlen, str(first)], None, 14400))
    res = vcommon.pmap(c12.job, jobs)
    tot = c12.digest(chk, "C13", res)
    # coverage-guided inputs (libFuzzer, clang ASan+UBSan) through the same oracle: a fixed number of runs per process
    fexe = c12.build_fuzzer("c13f-" + tier)
    nf = int((250000 if tier == "quick" else 8000000) * scale)
    fres = vcommon.pmap(c12.fuzz_job, [(fexe, seed * 1000 + k, nf, 64 if k % 2 else 24) for k in range(16)])
    c12.fuzz_digest(chk, "C13", fres)
    chk.count("mask_tests", tot.get("mask_true", 0) + tot.get("mask_false", 0))
    chk.count("mask_tests_expected_true", tot.get("mask_true", 0))
    chk.count("mask_tests_expected_false", tot.get("mask_false", 0))
    chk.count("parser_calls", tot.get("evaluations", 0) - tot.get("mask_true", 0) - tot.get("mask_false", 0))
    chk.count("strings_accepted", tot.get("accepted", 0))
    chk.count("strings_rejected", tot.get("rejected", 0))
    chk.count("plain_addresses_both_parsers_accept", tot.get("libc_both", 0))
    chk.count("claimed_prefixes_compared_with_libc", tot.get("trailing_libc", 0))
    chk.rule = ("mask test vs bit-by-bit oracle on single-bit, boundary, multi-group and random differences for every length 0..128 "
                "(thorough: every 16-bit difference in every group at every length); grammar-derived a.b.c.d/n, a.b.*, x:y::/n, x:y:*, * "
                "texts with independently computed (bits, network) and an inside/outside address probe; all strings over {0,1,9,a,f,:,.,/,*} "
                "up to length %s and mutated seeds, each in an exact-size heap buffer in all four (bits NULL/non-NULL x allow_trailing) modes "
                "under ASan+UBSan, compared with inet_pton when both accept; 16 libFuzzer processes (clang ASan+UBSan, fixed run count, inputs up to 24 / 64 bytes, "
                "seeded with mask and address texts) drive the same oracle with coverage-guided strings; a case is one harness slice, non-trivial when it judged >=1 input" % maxlen)
    chk.exhaustive = False
    chk.extra["exhaustive_subspace"] = "all strings over a 9-character alphabet up to length %s%s" % (
        maxlen, "; all (group, length, 16-bit difference) triples" if tier == "thorough" else "")
    chk.sample({"harness": "h_addr pton-grammar %d %d" % (seed * 100, ngram // 4), "example_inputs": ["10.1.*", "2001:db8::/32", "1.2.3.4/27", "*"]})
    chk.sample({"harness": "h_addr pton-strings %s 5" % maxlen, "meaning": "all strings starting with ':'"})
    chk.require("mask_tests", 100000)
    chk.require("plain_addresses_both_parsers_accept", 100)
    chk.assumptions += ["IPv4 masks count from bit 96 (a.b.c.d/n = 96+n bits), as the repository's own tests state",
                        "prefix lengths above 128 produced for undocumented texts are not judged"]


def replay(chk, rep):
    if "fuzz_input" in rep["witness"]:
        import tempfile, os
        fexe = c12.build_fuzzer("c13f-replay")
        with tempfile.NamedTemporaryFile("w", delete=False, encoding="latin-1") as f:
            f.write(rep["witness"]["fuzz_input"] or "")
        r = hrun.run([fexe, f.name], timeout=600)
        os.unlink(f.name)
        print(r.out[-2000:], r.err[-2000:])
        return 1 if r.rc != 0 else 0
    exe = c12.build_exe("c13-replay")
    r = hrun.run([exe] + rep["witness"]["argv"], timeout=7200)
    print(r.out[-3000:])
    print(r.err[-3000:])
    return 1 if r.rc != 0 else 0
