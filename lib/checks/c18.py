"""C18 - log routing follows the logs section (DESIGN.md C18)."""
import os
import random
import re

import confgen
import hconf
import vcommon
from vcommon import Violation

LEVEL = "exploration"

SEVS = ["debug", "command", "info", "warning", "error", "fatal"]
FACS = ["core", "config", "f1", "f2", "a_facility_with_quite_a_long_name"]
LINE_RE = re.compile(r"^\[\d\d:\d\d:\d\d \d\d/\d\d/\d{4}\] \(([^:()\s]+):(\w+)\) (.*)$")
MSG_RE = re.compile(r"^MSG r=(\d+) f=(\S+) s=(\w+)$")
LONG_RE = re.compile(r"^MSG r=(\d+) f=(\S+) s=(\w+) p=([0-9\r]*)$")
LONG_LENS = [600, 990, 1000, 1023, 1024, 1100, 2048, 5000]
LONG_SEVS = (2, 4)


FULL = "/dev/full"


def padding(n):
    s = [chr(48 + i % 10) for i in range(n)]
    if n >= 16:
        s[n // 2] = "\r"       # (as in h_conf: a carriage return inside the text is part of the message)
    return "".join(s)


def randcase(rng, s):
    if rng.random() < 0.75:
        return s
    return "".join(c.upper() if rng.random() < 0.5 else c for c in s)


def gen_sevset(rng):
    """Returns (text, set of severity indices) for a valid severity set."""
    if rng.random() < 0.15:
        return "*", set(range(6))
    items = []
    sset = set()
    # now and then a long, redundant list (keys of 64 characters and more)
    for _ in range(rng.choice([1, 1, 1, 2, 3]) if rng.random() < 0.9 else rng.choice([8, 10, 12, 14])):
        op = rng.choice(["", "", "=", "<", "<=", ">", ">="])
        k = rng.randrange(6)
        items.append(op + randcase(rng, SEVS[k]))
        if op in ("", "="):
            sset.add(k)
        elif op == "<":
            sset |= set(range(0, k))
        elif op == "<=":
            sset |= set(range(0, k + 1))
        elif op == ">":
            sset |= set(range(k + 1, 6))
        else:
            sset |= set(range(k, 6))
    return ",".join(items), sset


INVALID_KEYS = ["f1info", "f1.loud", "f1.!info", "f1.=>info", "f1.>=", "f1.info,loud", "f2.warning,>loud", "*.everything",
                "f1.<", "f1.info;error", "f2.>>info", "f1.info.error", "f1.=", "core.<=nothing"]


def build_section(items, vt):
    """items: [dict(key, valid, fac, sset, ds, as_list)] -> (entries for confgen, routes dict (fac, sev)->set(dest))."""
    entries = []
    routes = {}
    for it in items:
        if it.get("odd"):
            # a value that is neither a string nor a list of strings names no destination: the entry routes nothing
            if it["odd"] == "pair":
                entries.append((it["key"].encode(), ("inaddr", ("file:" + it["ds"][0]).encode(), ("file:" + it["ds"][-1]).encode())))
            else:
                entries.append((it["key"].encode(), ("obj", [(b"x", ("str", ("file:" + it["ds"][0]).encode()))])))
            continue
        if it["as_list"] or len(it["ds"]) != 1:
            node = ("list", [("file:" + d).encode() for d in it["ds"]])
        else:
            node = ("str", ("file:" + it["ds"][0]).encode())
        entries.append((it["key"].encode(), node))
        if it["valid"]:
            for s in it["sset"]:
                routes.setdefault((it["fac"], s), set()).update(it["ds"])
    if vt is not None:
        entries.append((b"verbose_timestamp", ("str", vt)))
    return entries, routes


def gen_items(rng, dests):
    items = []
    used = set()
    for _ in range(rng.choice([0, 1, 2, 3, 4, 6])):
        if rng.random() < 0.25:
            key = rng.choice(INVALID_KEYS)
            valid = False
            fac, sset = None, set()
        else:
            fac = rng.choice(FACS + ["*", "*", "f1", "nosuch"])
            text, sset = gen_sevset(rng)
            key = randcase(rng, fac) + "." + text
            valid = True
        if key.lower() in used:
            continue
        used.add(key.lower())
        nd = rng.choice([1, 1, 2, 3, 0] if rng.random() < 0.5 else [1, 1, 2, 3])
        ds = [rng.choice(dests) for _ in range(nd)]
        items.append(dict(key=key, valid=valid, fac=fac, sset=sset, ds=ds, as_list=not (nd == 1 and rng.random() < 0.6)))
        if ds and rng.random() < 0.08:
            items[-1]["odd"] = rng.choice(["pair", "obj"])
    vt = rng.choice([b"true", b"false"]) if rng.random() < 0.3 else None
    return items, vt


def mutate_items(rng, items, dests):
    """The same entries (same keys, nothing added, removed or renamed) with the destinations of some - often several - changed:
    moved to another file, a list filled that was empty, emptied, grown, shrunk."""
    out = [dict(it, ds=list(it["ds"])) for it in items]
    if not out:
        return out
    for it in rng.sample(out, rng.randint(1, len(out))):
        if it.get("odd"):
            continue
        how = rng.random()
        if not it["ds"] or how < 0.4:
            it["ds"] = [rng.choice(dests) for _ in range(rng.choice([1, 1, 2]))]
            if len(it["ds"]) > 1:
                it["as_list"] = True
        elif how < 0.55:
            it["ds"] = []
            it["as_list"] = True
        elif how < 0.8:
            it["ds"] = it["ds"] + [rng.choice(dests)]
            it["as_list"] = True
        else:
            it["ds"] = it["ds"][:-1] or [rng.choice(dests)]
            it["as_list"] = it["as_list"] or len(it["ds"]) != 1
    return out


def gen_section(rng, dests):
    """Returns (entries for confgen, routes dict (fac, sev)->set(dest))."""
    items, vt = gen_items(rng, dests)
    return build_section(items, vt)


def expected_dests(routes, fac, sev):
    return set(routes.get((fac, sev), set())) | set(routes.get(("*", sev), set()))


def make_case(seed, i, tier):
    rng = random.Random("c18/%d/%d" % (seed, i))
    nsec = rng.choice([1, 1, 2, 3, 4])
    dests = ["c%d_%s.log" % (i, x) for x in "abcd"]
    if rng.random() < 0.15:
        # one destination is a file that cannot be written to (a full disk): what goes there is lost, everything else is as usual
        dests = dests[:3] + [FULL]
    secs = []
    prev = None
    for k in range(nsec):
        if prev is not None and prev[0] and rng.random() < 0.45:
            # an edit of the previous section that only changes where entries go (keys stay)
            items, vt = mutate_items(rng, prev[0], dests), prev[1]
        else:
            items, vt = gen_items(rng, dests[:rng.choice([2, 3, 4])] if FULL not in dests else dests[:rng.choice([1, 2, 3])] + [FULL])
        prev = (items, vt)
        secs.append(build_section(items, vt))
    if nsec >= 2 and rng.random() < 0.2:
        secs[-1] = ([], {})                      # logs section dropped entirely
    if nsec >= 3 and rng.random() < 0.2:
        secs[-1] = secs[0]                       # back to the first
    return dests, secs


def _worker(a):
    exe, seed, tier, lo, hi = a
    b = hconf.Batch(exe, leaks=False, timeout_case=30)
    meta = {}
    try:
        for i in range(lo, hi):
            dests, secs = make_case(seed, i, tier)
            cmds = ["LOGREG f1", "LOGREG f2", "LOGREG " + FACS[-1]]
            for r, (entries, routes) in enumerate(secs):
                tree = [(b"logs", ("obj", entries))] if entries or r == 0 else [(b"other", ("str", b"x"))]
                if not entries and r == 0:
                    tree = [(b"other", ("str", b"x"))]
                p = b.add_file(confgen.render_conservative(tree))
                cmds += ["LOAD " + confgen.pct(p)]
                if i % 7 == 3 and FULL not in dests:
                    # the disk is full for a while: every write to a log file fails (EFBIG) while round 900+r is logged - those lines
                    # may be lost; then there is room again and round r is logged: those lines are all due
                    cmds += ["FSIZE 0", "EMIT %d %s" % (900 + r, ",".join(FACS)), "FSIZE unlimited"]
                cmds += ["EMIT %d %s" % (r, ",".join(FACS)), "DUMP"]
                if (i + r) % 3 == 0:
                    # long texts (around and beyond the logger's formatting buffer): round number r+100
                    cmds.append("EMITLONG %d %s %d" % (r + 100, ",".join(FACS), LONG_LENS[(i // 3 + r) % len(LONG_LENS)]))
            b.case("c%d" % i, cmds)
            meta["c%d" % i] = (i, dests, secs)
        recs, r = b.run()
        files = {}
        for name, (i, dests, secs) in meta.items():
            for d in dests:
                p = os.path.join(b.dir, d)
                if d != FULL and os.path.exists(p):
                    with open(p, "rb") as f:
                        files[d] = f.read().decode("latin-1")
    finally:
        b.cleanup()
    out = []
    stats = {"sections": 0, "reload_sequences": 0, "routing_decisions_judged": 0, "expected_deliveries": 0, "expected_absences": 0,
             "log_lines_checked": 0, "fatal_messages": 0, "invalid_entries": 0, "long_lines_checked": 0, "long_lines_untruncated": 0}
    for rec in recs:
        i, dests, secs = meta[rec.name]
        wit = {"index": i, "sections": [confgen.render_conservative([(b"logs", ("obj", e))]).decode("latin-1") for e, _ in secs]}
        crash = hconf.case_crash_events(rec)
        if crash:
            out.append(("crash", "%s|%s" % crash[0], "logging case crashed: %s\nsections:\n%s\n%s" % (crash, "\n---\n".join(wit["sections"]), "\n".join(rec.text[-15:])), wit))
            continue
        if any(rec.loads):
            out.append(("harness", "harness", "section did not load %s" % rec.loads, wit))
            continue
        for o in rec.other:
            if o.startswith("FATAL-CHILD"):
                out.append(("fatal-exit", "fatal-exit", "a fatal message did not terminate the process with status 1: " + o, wit))
        stats["sections"] += len(secs)
        stats["reload_sequences"] += 1 if len(secs) > 1 else 0
        # the section is the file's, not the logger's: after it has been read and used, its entries are named as they were written
        for r_, (entries, routes) in enumerate(secs):
            if r_ < len(rec.dumps):
                have_keys = sorted(m_.group(1).lower() for m_ in (re.match(r'^N "logs"/"((?:[^"\\]|\\.)*)" ', l_) for l_ in rec.dumps[r_]) if m_)
                want_keys = sorted(set(k_.decode("latin-1").lower() for k_, _ in entries) | {"verbose_timestamp"})
                stats["sections_compared_with_their_dump"] = stats.get("sections_compared_with_their_dump", 0) + 1
                if have_keys != want_keys:
                    out.append(("section-rewritten", "section-rewritten", "round %d: after the section was read and messages were logged, its entries are %s; it was written with %s" % (
                        r_, have_keys, want_keys), wit))
                    break
        got = {}
        for d in dests:
            for ln in files.get(d, "").split("\n"):
                if ln == "":
                    continue
                stats["log_lines_checked"] += 1
                m = LINE_RE.match(ln)
                if not m:
                    out.append(("line-format", "line-format", "incomplete or malformed line in %s: %r" % (d, ln[:200]), wit))
                    continue
                mm = MSG_RE.match(m.group(3))
                if mm:
                    if mm.group(2) != m.group(1) or mm.group(3) != m.group(2):
                        out.append(("attribution", "attribution", "message %r written as (%s:%s)" % (m.group(3), m.group(1), m.group(2)), wit))
                    got.setdefault((int(mm.group(1)), mm.group(2), mm.group(3)), {}).setdefault(d, 0)
                    got[(int(mm.group(1)), mm.group(2), mm.group(3))][d] += 1
                elif LONG_RE.match(m.group(3)):
                    mm = LONG_RE.match(m.group(3))
                    rr = int(mm.group(1)) - 100
                    want_len = LONG_LENS[(i // 3 + rr) % len(LONG_LENS)]
                    stats["long_lines_checked"] += 1
                    if mm.group(2) != m.group(1) or mm.group(3) != m.group(2):
                        out.append(("attribution", "attribution", "long message written as (%s:%s): %r" % (m.group(1), m.group(2), m.group(3)[:60]), wit))
                    if not padding(want_len).startswith(mm.group(4)):
                        out.append(("line-format", "line-format:long", "text of a %d-byte message garbled: %r..." % (want_len, m.group(3)[:80]), wit))
                    if len(mm.group(4)) == want_len:
                        stats["long_lines_untruncated"] += 1
                    elif len(m.group(3)) < 1023:
                        # the logger formats into 1024 bytes: a text may be cut there and nowhere else
                        out.append(("line-format", "line-format:cut-short", "a %d-byte message was written cut to %d bytes (the formatting buffer holds 1023): %r..." % (
                            want_len, len(m.group(3)), m.group(3)[-40:]), wit))
                    got.setdefault((int(mm.group(1)), mm.group(2), mm.group(3)), {}).setdefault(d, 0)
                    got[(int(mm.group(1)), mm.group(2), mm.group(3))][d] += 1
                elif m.group(3).startswith("MSG"):
                    out.append(("line-format", "line-format", "garbled message text %r" % m.group(3)[:100], wit))
        if i % 7 == 3 and FULL not in dests:
            # what was logged while no file could be written may be lost or come late, but never goes where its section does not send it
            for r, (entries, routes) in enumerate(secs):
                stats["rounds_logged_after_an_outage"] = stats.get("rounds_logged_after_an_outage", 0) + 1
                for fac in FACS:
                    for s in range(6):
                        have = set(got.get((900 + r, fac, SEVS[s]), {}))
                        if have - expected_dests(routes, fac, s):
                            out.append(("routing-extra", "routing-extra:outage", "round %d (logged while no file could be written): message (%s, %s) reached %s, the section routes it to %s" % (
                                r, fac, SEVS[s], sorted(have), sorted(expected_dests(routes, fac, s))), wit))
        for r, (entries, routes) in enumerate(secs):
            stats["invalid_entries"] += sum(1 for k, _ in entries if k.decode() in INVALID_KEYS)
            for fac in FACS:
                for s in range(6):
                    want = expected_dests(routes, fac, s) - {FULL}
                    have = set(got.get((r, fac, SEVS[s]), {}))
                    if FULL in dests:
                        stats["routing_decisions_next_to_an_unwritable_destination"] = stats.get("routing_decisions_next_to_an_unwritable_destination", 0) + 1
                    stats["routing_decisions_judged"] += len(dests)
                    stats["expected_deliveries"] += len(want)
                    stats["expected_absences"] += len(dests) - len(want)
                    if s == 5:
                        stats["fatal_messages"] += 1
                    if (i + r) % 3 == 0 and s in LONG_SEVS and want == have:
                        have_long = set(got.get((r + 100, fac, SEVS[s]), {}))
                        stats["routing_decisions_judged"] += len(dests)
                        if have_long != want:
                            have = have_long
                    if want != have:
                        kind = "missing" if (want - have) else "extra"
                        after = "after-reload" if r > 0 else "first-load"
                        out.append(("routing-" + kind, "routing-%s:%s" % (kind, after),
                                    "round %d: message (%s, %s) reached %s, the section routes it to %s\nsections:\n%s" % (
                                        r, fac, SEVS[s], sorted(have), sorted(want), "\n---\n".join(wit["sections"][:r + 1])), wit))
                        break
                else:
                    continue
                break
    return out, stats


def run(chk, tier, scale=1.0):
    exe = hconf.build_exe("c18-" + tier)
    n = int((600 if tier == "quick" else 14000) * scale)
    per = 40
    work = [(exe, chk.seed, tier, lo, min(n, lo + per)) for lo in range(0, n, per)]
    for out, stats in vcommon.pmap(_worker, work):
        chk.merge_counts(stats)
        for rule, sig, text, wit in out[:6]:
            if rule == "harness":
                chk.inconc(text)
            else:
                chk.violation(Violation("C18", rule, sig, text, wit))
    for i in range(n):
        dests, secs = make_case(chk.seed, i, tier)
        chk.add_case(vcommon.h(str(secs)), any(e for e, _ in secs))
    chk.rule = ("random logs sections over facilities {core, config, f1, f2, *, unknown} x severity expressions (names, =, <, <=, >, >=, comma "
                "lists, *, mixed case) x 1-3 file destinations (string or list, shared between entries) with invalid entries of every kind mixed in, "
                "and sequences of 1-4 sections applied by reload; after each load one numbered message per (facility, severity) is emitted through the "
                "real log_message (fatal ones in a forked child) and every destination file is read back: membership must equal the reference model's, "
                "every line must be complete and attributed; every third round also emits messages padded to 600-5000 bytes (whose line must be well-formed and whose text must be a prefix of what was logged - truncation by the logger's buffer is not judged); distinct = section sequence; non-trivial = at least one entry")
    d, s = make_case(chk.seed, 0, tier)
    chk.sample({"sections": [confgen.render_conservative([(b"logs", ("obj", e))]).decode("latin-1") for e, _ in s]})
    chk.require("rounds_logged_after_an_outage", 20 * min(1.0, scale))
    chk.require("routing_decisions_judged", 20000)
    chk.require("expected_deliveries", 2000)
    chk.require("reload_sequences", 100)
    chk.assumptions += ["severity lists have no empty items", "destinations are file: targets in the case's scratch directory, lower-case names",
                        "lines the logger writes about itself (Attaching ...) are checked for format only"]


def replay(chk, rep):
    exe = hconf.build_exe("c18-replay")
    i = rep["witness"]["index"]
    out, stats = _worker((exe, rep["seed"], rep["tier"], i, i + 1))
    for o in out:
        print(o[0], o[2][:1500])
    return 1 if [o for o in out if o[0] != "harness"] else 0
