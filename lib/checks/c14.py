"""C14 - config parsing is total and a failed load changes nothing (DESIGN.md C14)."""
import os
import random

import confgen
import hconf
import vcommon
from vcommon import Violation

LEVEL = "fault_enumeration"

HOSTILE = [b"{", b"}", b"(", b")", b'"', b"\\", b",", b";", b"/", b"*", b"\x00", b"\n", b"\xff", b" ", b"#", b"x"]

NAMES = [b"alpha", b"beta", b"gamma", b"delta", b"eps", b"zeta"]


def prior_configs(rng):
    """(file bytes or None, registrations before, registrations after)"""
    pct = confgen.pct
    small = [(b"alpha", ("obj", [(b"s", ("str", b"one")), (b"l", ("list", [b"a", b"b"])), (b"i", ("inaddr", b"host", b"80"))]))]
    nested = [(b"alpha", ("obj", [(b"s", ("str", b"two")), (b"o", ("obj", [(b"x", ("str", b"1")), (b"oo", ("obj", [(b"y", ("list", []))]))]))])),
              (b"beta", ("obj", [(b"i", ("inaddr", b"::1", b"http")), (b"t", ("str", b"5m"))])),
              (b"loose", ("str", b"top"))]
    regs_a = ["REG str alpha/s 0 dflt", "REG list alpha/l 2 d1 d2", "REG inaddr alpha/i dh ds", "REG obj alpha/o",
              "REG str alpha/o/x 2 7", "REG str beta/t 4 30", "REG str gamma/missing 0 %00", "REG list gamma/el 0",
              "REG inaddr beta/i %00 %00", "REG str alpha/b 1 true"]
    out = [(None, [], []),
           (None, regs_a[:6], []),
           (confgen.render_conservative(small), regs_a[:4], regs_a[4:]),
           (confgen.render_conservative(nested), regs_a[4:], regs_a[:4]),
           (confgen.render_conservative(nested), [], []),
           (confgen.render_conservative(small), regs_a, []),
           # sections that exist (registered) but have no members yet
           (None, ["REG obj alpha", "REG obj alpha/o", "REG obj beta"], []),
           (confgen.render_conservative([(b"alpha", ("obj", [(b"o", ("obj", []))])), (b"beta", ("obj", []))]), [], ["REG obj alpha/o"])]
    return out


def valid_files(rng, n):
    files = []
    for i in range(n):
        tree = confgen.gen_tree(rng, depth=rng.choice([1, 2, 3]), width=rng.choice([2, 3, 4]), names=NAMES if rng.random() < 0.7 else None,
                                binary=rng.random() < 0.4)
        # make sure the interesting names appear so that the load touches registered nodes
        if rng.random() < 0.7:
            tree.insert(0, (b"alpha", ("obj", [(b"s", ("str", b"new")), (b"l", ("list", [b"n1", b"n2", b"n3"])),
                                               (b"i", ("inaddr", b"newhost", b"81")), (b"o", ("obj", [(b"x", ("str", b"9"))]))])))
        feats = {k: 1 for k in confgen.FEATURES if rng.random() < 0.3}
        if not feats.get("term_semicolon") and not feats.get("term_newline"):
            feats["term_newline"] = 1
        if feats.get("one_line"):
            feats["term_semicolon"] = 1
        data = confgen.render(tree, feats, rng.randint(0, 1 << 30))
        if len(data) > 700:
            continue
        files.append(data)
    return files


AFTERMATH = [(b"alpha", ("obj", [(b"s", ("str", b"after")), (b"l", ("list", [b"x", b"y"])), (b"o", ("obj", [(b"x", ("str", b"3"))]))])),
             (b"beta", ("obj", [(b"t", ("str", b"7m"))])), (b"fresh", ("str", b"only-in-C"))]


AFTERMATH2 = [(b"alpha", ("obj", [(b"s", ("str", b"z"))])), (b"gamma", ("obj", []))]     # drops most of what AFTERMATH and the priors had


def _worker(a):
    exe, cases = a   # cases: list of (tag, prior index, B bytes or special)
    rng = random.Random(0)
    priors = prior_configs(rng)
    b = hconf.Batch(exe, leaks=False, timeout_case=20)
    meta = {}
    odd_mtimes = 0
    try:
        prior_paths = [b.add_file(p[0]) if p[0] is not None else None for p in priors]
        # aftermath: after the (possibly failing) load of B a valid file C is loaded; when B failed, the tree and the hook log
        # must then be what they are in a run that never saw B (reference cases ref<pi>)
        pc = b.add_file(confgen.render_conservative(AFTERMATH))
        pd = b.add_file(confgen.render_conservative(AFTERMATH2))
        for pi, (fileA, before, after) in enumerate(priors):
            cmds = list(before)
            if prior_paths[pi]:
                cmds.append("LOAD " + confgen.pct(prior_paths[pi]))
            cmds += list(after) + ["HOOKS", "LOAD " + confgen.pct(pc), "DUMP", "HOOKS", "LOAD " + confgen.pct(pd), "DUMP", "HOOKS"]
            b.case("ref%d" % pi, cmds)
        for tag, pi, data in cases:
            fileA, before, after = priors[pi]
            if isinstance(data, bytes):
                # what a file says does not depend on when it was written: a few files carry a modification time in the future
                # (clock stepped back, restored from a host that runs ahead) or far in the past
                hv = int(vcommon.h([tag])[:8], 16)
                import time as _t
                mt = [_t.time() + 3600, _t.time() + 4, 978307200, 0][(hv // 61) % 4] if hv % 61 == 0 else None
                pb = b.add_file(data, mtime=mt)
                if mt is not None:
                    odd_mtimes += 1
            elif data == "missing":
                pb = os.path.join(b.dir, "does-not-exist.conf")
            else:
                pb = b.dir  # a directory
            cmds = list(before)
            if prior_paths[pi]:
                cmds.append("LOAD " + confgen.pct(prior_paths[pi]))
            cmds += list(after) + ["HOOKS", "SNAP", "LOAD " + confgen.pct(pb), "SAME", "HOOKS", "LOAD " + confgen.pct(pc), "DUMP", "HOOKS",
                                   "LOAD " + confgen.pct(pd), "DUMP", "HOOKS"]
            b.case(tag, cmds)
            meta[tag] = (pi, data)
        recs, r = b.run()
    finally:
        b.cleanup()
    out = []
    stats = {"cases": 0, "loads_failed": 0, "loads_succeeded": 0, "atomicity_checks": 0, "aftermath_checks": 0, "files_with_odd_modification_time": odd_mtimes}
    seen = set()
    refs = {}
    for rec in recs:
        if rec.name.startswith("ref"):
            if rec.status == "exit=0" and rec.dumps and rec.loads and rec.loads[-1] == 0 and not hconf.case_crash_events(rec):
                refs[int(rec.name[3:])] = (rec.dumps[-2], rec.hooks[-2] if len(rec.hooks) >= 2 else [], rec.dumps[-1])
    for rec in recs:
        if rec.name.startswith("ref"):
            continue
        pi, data = meta[rec.name]
        seen.add(rec.name)
        stats["cases"] += 1
        crash = hconf.case_crash_events(rec)
        wit = {"prior": pi, "file": data.decode("latin-1") if isinstance(data, bytes) else data, "case": rec.name}
        if crash:
            for kind, func in crash:
                txt = [s["text"] for s in rec.sanitizer if s["kind"] == kind]
                out.append(("crash", "%s|%s" % (kind, func), "loading %r on prior #%d: %s in %s\n%s" % (
                    wit["file"][:200], pi, kind, func, (txt[0] if txt else "")[:1500]), wit))
            continue
        want_loads = 4 if prior_configs(rng)[pi][0] is not None else 3
        if len(rec.loads) != want_loads:
            out.append(("harness", "harness", "unexpected LOAD count %s" % rec.loads, wit))
            continue
        if want_loads == 4 and rec.loads[0] != 0:
            out.append(("harness", "harness", "prior config did not load: %s" % rec.loads, wit))
            continue
        rc = rec.loads[-3]
        if rc == 0:
            stats["loads_succeeded"] += 1
            continue
        stats["loads_failed"] += 1
        stats["atomicity_checks"] += 1
        same = rec.same[0] if rec.same else None
        if same is None or not same[0]:
            before, after = (same[1], same[2]) if same else ([], [])
            diff = [l for l in after if l not in before][:4] + ["--- before only:"] + [l for l in before if l not in after][:4]
            out.append(("atomicity-dump", "atomicity-dump", "conf_read failed (rc=%d) but the live tree changed on prior #%d, file %r:\n%s" % (
                rc, pi, wit["file"][:300], "\n".join(diff)), wit))
        hooks = rec.hooks[-3] if len(rec.hooks) >= 3 else []
        if hooks:
            out.append(("atomicity-hook", "atomicity-hook", "conf_read failed (rc=%d) but hooks ran: %s; file %r" % (rc, hooks[:4], wit["file"][:300]), wit))
        if pi in refs and rec.dumps:
            stats["aftermath_checks"] += 1
            rd, rh, rd2 = refs[pi]
            if rec.loads[-1] != 0 or rec.loads[-2] != 0:
                out.append(("aftermath-load", "aftermath-load", "after the failed load of %r a valid file no longer loads (rc=%d)" % (wit["file"][:300], rec.loads[-1]), wit))
            elif rec.dumps[-2] != rd or rec.dumps[-1] != rd2:
                got_ = rec.dumps[-2] if rec.dumps[-2] != rd else rec.dumps[-1]
                rd = rd if rec.dumps[-2] != rd else rd2
                diff = [l for l in got_ if l not in rd][:5] + ["--- only without the failed load:"] + [l for l in rd if l not in got_][:5]
                out.append(("aftermath-dump", "aftermath-dump", "the failed load of %r (rc=%d, prior #%d) left something behind: the next successful load gives a different tree than "
                            "without it:\n%s" % (wit["file"][:300], rc, pi, "\n".join(diff)), wit))
            elif sorted(rec.hooks[-2]) != sorted(rh):
                out.append(("aftermath-hooks", "aftermath-hooks", "after the failed load of %r the next successful load notified %s, without the failed load %s" % (
                    wit["file"][:300], sorted(rec.hooks[-2])[:6], sorted(rh)[:6]), wit))
    for tag in meta:
        if tag not in seen:
            out.append(("harness", "harness", "case %s lost" % tag, {}))
    return out, stats


FAULT_MODES = ["eintr", "eio", "eof", "rd", "stale", "stalei"]


def fault_worker(a):
    """The file is fine but reading it misbehaves once (h_conf FLOAD: a read cut short by a signal, an I/O error part-way, the
    file shorter than fstat said, a short read(2) followed by EINTR, a stale errno when the load starts).  Whatever the reader
    does about it, the load terminates and either reports an error - then nothing changed and nobody was notified - or
    succeeds - then the tree is the one the WHOLE file describes (the reference: the same file loaded without a fault).
    Returns findings tagged with the rule, so that C14 judges termination / atomicity and C15 / C16 the successful loads."""
    exe, seed, nfiles = a
    rng = random.Random("fault/%d" % seed)
    priors = prior_configs(random.Random(0))
    files = valid_files(rng, nfiles * 2)[:nfiles]
    # files in which a cut leaves a VALID shorter file (whole entries per line): a cut read that is taken for the whole file parses
    big = b"".join(b'k%d "v%d";\n' % (i, i) for i in range(40)) + b'alpha { s "late"; l ("m", "n"); };\nbeta { t "3m"; };\n'
    files += [big, b'alpha { s "one"; };\n', b'loose "x";\n' * 3]
    b = hconf.Batch(exe, leaks=False, timeout_case=6)
    meta = {}
    try:
        prior_paths = [b.add_file(p[0]) if p[0] is not None else None for p in priors]
        paths = [b.add_file(f) for f in files]
        pempty = b.add_file(b"")
        k = 0
        for fi, data in enumerate(files):
            for pi in (k % len(priors), (k + 3) % len(priors)):
                fileA, before, after = priors[pi]
                pre = list(before) + (["LOAD " + confgen.pct(prior_paths[pi])] if prior_paths[pi] else []) + list(after)
                b.case("fref%d_%d" % (fi, pi), pre + ["LOAD " + confgen.pct(paths[fi]), "DUMP"])
                cuts = sorted(set([0, 1, len(data) // 2, len(data) - 1] + [data.find(b"\n", rng.randrange(len(data))) + 1 for _ in range(3)]))
                for mode in FAULT_MODES:
                    for at in (cuts if not mode.startswith("stale") else [0]):
                        if at < 0 or at >= len(data):
                            continue
                        tag = "fl%d_%d_%s_%d" % (fi, pi, mode, at)
                        b.case(tag, pre + ["HOOKS", "SNAP", "FLOAD %s %d %s" % (mode, at, confgen.pct(paths[fi])), "SAME", "HOOKS", "DUMP"])
                        meta[tag] = (fi, pi, mode, at)
                k += 1
        # the empty file (what is there for an instant while a file is rewritten in place) with every stale errno
        for pi in range(len(priors)):
            fileA, before, after = priors[pi]
            pre = list(before) + (["LOAD " + confgen.pct(prior_paths[pi])] if prior_paths[pi] else []) + list(after)
            for mode in ("stale", "stalei"):
                tag = "fe%d_%s" % (pi, mode)
                b.case(tag, pre + ["HOOKS", "SNAP", "FLOAD %s 0 %s" % (mode, confgen.pct(pempty)), "SAME", "HOOKS", "DUMP"])
                meta[tag] = (None, pi, mode, 0)
        recs, r = b.run()
    finally:
        b.cleanup()
    out = []
    stats = {"fault_cases": 0, "faults_fired": 0, "fault_loads_reported_error": 0, "fault_loads_succeeded": 0, "fault_success_compared_with_whole_file": 0}
    refs = {}
    for rec in recs:
        if rec.name.startswith("fref") and rec.status == "exit=0" and rec.dumps and rec.loads and rec.loads[-1] == 0:
            refs[rec.name[4:]] = rec.dumps[-1]
    seen = set()
    for rec in recs:
        if rec.name not in meta:
            continue
        seen.add(rec.name)
        fi, pi, mode, at = meta[rec.name]
        data = files[fi] if fi is not None else b""
        wit = {"fault": mode, "at": at, "prior": pi, "file": data.decode("latin-1"), "case": rec.name, "fault_case": True}
        stats["fault_cases"] += 1
        if rec.status == "timeout":
            out.append(("fault-hang", "fault-hang:" + mode, "loading a %d-byte file with the read misbehaving (%s at byte %d) did not return within 6 s on prior #%d" % (
                len(data), mode, at, pi), wit))
            continue
        crash = hconf.case_crash_events(rec)
        if crash:
            for kind, func in crash:
                txt = [s_["text"] for s_ in rec.sanitizer if s_["kind"] == kind]
                out.append(("crash", "%s|%s" % (kind, func), "read fault %s at byte %d while loading %r: %s in %s\n%s" % (mode, at, wit["file"][:200], kind, func, (txt[0] if txt else "")[:1500]), wit))
            continue
        fired = [int(l.split("=")[1]) for l in rec.other if l.startswith("FAULT fired=")]
        if not rec.loads or not fired or not rec.dumps:
            out.append(("harness", "harness", "fault case %s incomplete: loads %s other %s" % (rec.name, rec.loads, rec.other[:3]), wit))
            continue
        stats["faults_fired"] += 1 if fired[-1] else 0
        rc = rec.loads[-1]
        if rc != 0:
            stats["fault_loads_reported_error"] += 1
            same = rec.same[0] if rec.same else None
            if same is None or not same[0]:
                before_, after_ = (same[1], same[2]) if same else ([], [])
                diff = [l for l in after_ if l not in before_][:4] + ["--- before only:"] + [l for l in before_ if l not in after_][:4]
                out.append(("atomicity-dump", "fault-atomicity-dump:" + mode, "conf_read failed (rc=%d, read fault %s at byte %d) but the live tree changed on prior #%d:\n%s" % (
                    rc, mode, at, pi, "\n".join(diff)), wit))
            hooks = rec.hooks[-1] if len(rec.hooks) >= 2 else []
            if hooks:
                out.append(("atomicity-hook", "fault-atomicity-hook:" + mode, "conf_read failed (rc=%d, read fault %s at byte %d) but hooks ran: %s" % (rc, mode, at, hooks[:4]), wit))
        else:
            stats["fault_loads_succeeded"] += 1
            if fi is None:
                ref = None
            else:
                ref = refs.get("%d_%d" % (fi, pi))
            if fi is not None and ref is None:
                out.append(("harness", "harness", "no reference for %s" % rec.name, wit))
                continue
            stats["fault_success_compared_with_whole_file"] += 1
            got = rec.dumps[-1]
            if ref is not None and got != ref:
                diff = [l for l in got if l not in ref][:5] + ["--- only when the whole file is read:"] + [l for l in ref if l not in got][:5]
                out.append(("fault-wrong-tree", "fault-wrong-tree:" + mode, "the load succeeded although the read misbehaved (%s at byte %d of %d), and the tree is not the one the file "
                            "describes (prior #%d):\n%s" % (mode, at, len(data), pi, "\n".join(diff)), wit))
    for tag in meta:
        if tag not in seen:
            out.append(("harness", "harness", "fault case %s lost" % tag, {}))
    return out, stats


def fold_faults(chk, prop, res, rules):
    for out, stats in res:
        chk.merge_counts(stats)
        for rule, sig, text, wit in out[:6]:
            if rule == "harness":
                chk.inconc(text)
            elif rule in rules:
                chk.violation(Violation(prop, rule, sig, text, wit))
            else:
                chk.count("fault_findings_judged_by_another_check")


def run(chk, tier, scale=1.0):
    exe = hconf.build_exe("c14-" + tier)
    rng = random.Random(chk.seed)
    nfiles = int((14 if tier == "quick" else 160) * scale) or 1
    files = valid_files(rng, nfiles * 2)[:nfiles]
    cases = []
    npri = 8
    k = 0
    for fi, data in enumerate(files):
        for cut in range(len(data)):
            cases.append(("tr%d_%d" % (fi, cut), k % npri, data[:cut]))
            k += 1
    ntrunc = len(cases)
    nsub = int((3000 if tier == "quick" else 300000) * scale)
    if tier == "thorough":
        # every position x every hostile byte for a subset of files, sampled for the rest
        for fi, data in enumerate(files[:40]):
            for pos in range(len(data)):
                for hb in HOSTILE:
                    if len(cases) - ntrunc >= nsub:
                        break
                    cases.append(("sb%d_%d_%d" % (fi, pos, hb[0]), k % npri, data[:pos] + hb + data[pos + 1:]))
                    k += 1
    while len(cases) - ntrunc < nsub:
        fi = rng.randrange(len(files))
        data = files[fi]
        pos = rng.randrange(len(data))
        op = rng.random()
        hb = rng.choice(HOSTILE)
        if op < 0.6:
            d2 = data[:pos] + hb + data[pos + 1:]
        elif op < 0.8:
            d2 = data[:pos] + hb + data[pos:]
        else:
            d2 = data[:pos] + data[pos + 1:]
        cases.append(("sr%d" % len(cases), k % npri, d2))
        k += 1
    # special inputs
    specials = [b"", b"\n", b" ", b"\x00", b"a", b'"', b'"\\', b"{", b"}", b"a {", b"a (", b"a (b", b"a (b,", b"a b,", b"a b, c,", b"/*", b"/", b"//",
                b"a /* b", b'a "b', b"a b c d", b"a { b { c { d", b"a ()()", b"a ,", b", a", b"a b; }", b"a { } }", b'a "\\x', b'a "\\x4', b'a "\\',
                b"a " + b"{ b " * 1000, b"a " + b"{ b " * 1000 + b"1 " + b"} " * 1000 + b"\n", b'a "' + b"x" * 65536 + b'"\n', b'a "' + b"x" * 65536,
                b"a (" + b"b," * 3000 + b"c)\n", b"\xff\xfe\xfd", bytes(range(1, 256)), b"a b\n" * 2000, "missing", "directory"]
    # valid files that spell the keys of the prior configurations in another letter case (accepted; the aftermath load follows)
    specials += [b'ALPHA {\n S "respelled";\n L ("q");\n};\n', b'Alpha { O { X "2"; }; s "t"; };\nBETA { T "9m"; I "h" "1"; };\n',
                 b'alpha { S "a"; s "b"; };\n', b'LOOSE "x";\nalpha { o { OO { Y ("z"); }; }; };\n']
    # valid files in which a typed setting that the priors register carries a text of the wrong type, next to other edits: the load
    # succeeds (the old value stays in force), and if it ever reports an error instead nothing may have changed
    specials += [b'alpha { o { x "12q"; }; s "changed"; l ("z"); };\n', b'beta { t "5x"; i "h" "1"; };\nalpha { s "w"; };\n',
                 b'alpha { b "maybe"; l ("z", "y"); s "v"; };\n', b'alpha { o { x "pizza"; }; };\nbeta { t "1:2:3:4"; };\nloose "q";\n']
    # escape sequences cut short or malformed, at every distance from the closing quote
    for esc in [b"\\x", b"\\x4", b"\\x4z", b"\\xg", b"\\x41", b"\\xZ9", b"\\", b"\\q", b"\\x4\\x4", b"\\x\\x", b"\\xff\\x", b"\\x0", b"\\x00", b"\\n\\x1"]:
        for tmpl in (b'a "%s"\n', b'a "%s', b'a "xy%s"\n', b'a "%sxy"\n', b'a ("%s", "b")\n', b'"%s" v\n', b'o { k "%s" }\n', b'a "%s" "%s"\n', b'a b, "%s"\n',
                     b'a "%s"', b'a "%s";b "%s"\n'):
            specials.append(tmpl.replace(b"%s", esc))
    # large files whose size is, or is next to, a whole number of memory pages (valid ones, and ones with the error at the very end)
    body = b'alpha { s "big"; l ("p", "q"); };\nloose "w";\n'
    for size in (4096, 8192, 65536, 65537, 69632, 69631, 131072, 262144):
        pad = size - len(body)
        specials.append(body + b"/*" + b"x" * (pad - 5) + b"*/\n")
        specials.append(body + b" " * (pad - 9) + b'broken "\n')
        specials.append(body + b"//" + b"y" * (pad - 2))
    for i in range(int(40 * (1 if tier == "quick" else 10))):
        specials.append(bytes(rng.randrange(256) for _ in range(rng.choice([1, 3, 10, 50, 200, 1000]))))
        specials.append(bytes(rng.choice(b'ab {}(),;"\\/*\n ') for _ in range(rng.choice([3, 10, 50, 200]))))
    for i, sp in enumerate(specials):
        for pi in range(npri):
            cases.append(("sp%d_%d" % (i, pi), pi, sp))
    per = 250
    work = [(exe, cases[i:i + per]) for i in range(0, len(cases), per)]
    res = vcommon.pmap(_worker, work)
    for out, stats in res:
        chk.merge_counts(stats)
        for rule, sig, text, wit in out[:6]:
            if rule == "harness":
                chk.inconc(text)
            else:
                chk.violation(Violation("C14", rule, sig, text, wit))
    # the file is fine, reading it is not
    fres = vcommon.pmap(fault_worker, [(exe, chk.seed * 31 + k, 4) for k in range(4 if tier == "quick" else 48)])
    fold_faults(chk, "C14", fres, ("fault-hang", "crash", "atomicity-dump", "atomicity-hook"))
    chk.require("faults_fired", 100)
    distinct = set()
    for tag, pi, data in cases:
        hsh = vcommon.h([pi, data.decode("latin-1") if isinstance(data, bytes) else data])
        chk.add_case(hsh, True)
    chk.count("truncation_points", ntrunc)
    chk.count("valid_files", len(files))
    chk.rule = ("fault enumeration: %d generated valid files truncated at every byte offset, single-byte substitutions/insertions/deletions "
                "from a hostile alphabet, special inputs (empty, missing, directory, 1000-level nesting, 64 KiB string, files of 4 KiB-256 KiB whose size is or is next to a whole number of pages, random bytes), each loaded "
                "on top of one of 8 prior configurations (with registered nodes of all four kinds and hooks); after every case a fixed valid file is loaded: if the "
                "hostile load failed, tree and hook log must then equal those of a run that never saw the hostile file; distinct = (prior, file bytes); "
                "every case is non-trivial (it performs a load on a non-empty prior state or an empty one)" % len(files))
    chk.exhaustive = False
    chk.extra["exhaustive_subspace"] = "every truncation point of the %d generated valid files" % len(files)
    chk.sample({"prior": 2, "valid_file": files[0].decode("latin-1"), "truncated_at": list(range(0, len(files[0]), max(1, len(files[0]) // 5)))})
    chk.sample({"special": "a " + "{ b " * 3 + "... x1000"})
    chk.require("loads_failed", 500)
    chk.require("loads_succeeded", 50)
    chk.assumptions += ["files <= 4 KiB except the stated oversize specials", "leaks on parser error paths are not judged (detect_leaks=0)"]


def replay(chk, rep):
    exe = hconf.build_exe("c14-replay")
    w = rep["witness"]
    if w.get("fault_case"):
        # the fault cases are generated from the seed: the batch that held the case is run again
        out = []
        for k in range(48):
            o, st = fault_worker((exe, chk.seed * 31 + k, 4))
            out += [x for x in o if x[3].get("fault") == w["fault"]]
            if out:
                break
        print(out[:3])
        return 1 if [o for o in out if o[0] != "harness"] else 0
    data = w["file"].encode("latin-1") if w["file"] not in ("missing", "directory") else w["file"]
    out, stats = _worker((exe, [("replay", w["prior"], data)]))
    print(out, stats)
    return 1 if [o for o in out if o[0] != "harness"] else 0
