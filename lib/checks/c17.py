"""C17 - a reload reaches the decision modules (DESIGN.md C17)."""
import copy
import random
import re

import daemon
import proto
import prun
import vcommon
from checks import c11
from vcommon import Violation

LEVEL = "exploration"
PROPS = ["C17"]

SVC_NAMES = ["login.svc", "drone.svc", "ipr.svc", "combo.svc", "Alpha.Net"]
# protocols as written in the file: the four known ones (also in another letter case) and one the module does not know
PROTOS_X = list(proto.PROTOS) * 3 + ["LOGIN", "DroneCheck", "nonsense"]


def gen_config(rng):
    svcs = [(n, rng.choice(PROTOS_X)) for n in rng.sample(SVC_NAMES, rng.choice([0, 1, 2, 3]))]
    rules = c11.gen_rules(rng, bad=False) if rng.random() < 0.8 else []
    for r in rules:
        if "xreply_ok" in r:
            r["xreply_ok"] = rng.choice(["login.svc", "drone.svc", "combo.svc"])
    return svcs, rules


def recase(rng, name):
    """Another spelling of the same (case-insensitive) key."""
    cands = [name.upper(), name.lower(), name.swapcase(), name.capitalize()]
    cands = [c for c in cands if c != name]
    return rng.choice(cands) if cands else name


def edit(rng, svcs, rules):
    """Returns (new svcs, new rules, [edit kinds])."""
    svcs = list(svcs)
    rules = copy.deepcopy(rules)
    kinds = []
    for _ in range(rng.choice([1, 1, 1, 2, 3])):
        k = rng.choice(["svc-add", "svc-remove", "svc-change", "rule-add", "rule-remove", "rule-class", "crit-add", "crit-remove", "crit-change", "rule-rename",
                        "svc-change", "crit-change", "rule-class", "svc-recase", "rule-recase", "rule-strip"])
        if k == "svc-add":
            free = [n for n in SVC_NAMES if n not in [x[0] for x in svcs]]
            if not free:
                continue
            svcs.append((rng.choice(free), rng.choice(PROTOS_X)))
        elif k == "svc-remove":
            if not svcs:
                continue
            svcs.pop(rng.randrange(len(svcs)))
        elif k == "svc-change":
            if not svcs:
                continue
            i = rng.randrange(len(svcs))
            svcs[i] = (svcs[i][0], rng.choice([p for p in PROTOS_X if p != svcs[i][1]]))
        elif k == "rule-add":
            new = c11.gen_rules(rng, bad=False)
            new = [r for r in new if r["name"].lower() not in [x["name"].lower() for x in rules]]
            if not new:
                continue
            rules.append(new[0])
        elif k == "rule-remove":
            if not rules:
                continue
            rules.pop(rng.randrange(len(rules)))
        elif k == "rule-class":
            if not rules:
                continue
            r = rng.choice(rules)
            r["class"] = rng.choice(["moved", "trusted2", "c" + str(rng.randrange(100))])
        elif k == "rule-strip":
            # the rule stays but loses every setting at once: it now matches everybody and gives its own name as the class
            cands = [r for r in rules if "_plain" not in r and len(r) > 1]
            if not cands:
                continue
            r = rng.choice(cands)
            for key in list(r):
                if key != "name":
                    del r[key]
        elif k == "crit-add":
            if not rules:
                continue
            r = rng.choice(rules)
            key = rng.choice(["account", "address", "username", "hostname", "xreply_ok", "trust_username"])
            if key in r:
                continue
            r[key] = {"account": rng.choice(c11.ACCT_PATS), "address": rng.choice(c11.ADDR_PATS), "username": rng.choice(c11.USER_PATS),
                      "hostname": rng.choice(c11.HOST_PATS), "xreply_ok": rng.choice(["login.svc", "drone.svc"]), "trust_username": "yes"}[key]
        elif k == "crit-remove":
            cands = [(r, key) for r in rules for key in ("account", "address", "username", "hostname", "xreply_ok", "trust_username", "class") if key in r]
            if not cands:
                continue
            r, key = rng.choice(cands)
            del r[key]
        elif k == "crit-change":
            cands = [(r, key) for r in rules for key in ("account", "address", "username", "hostname") if key in r]
            if not cands:
                continue
            r, key = rng.choice(cands)
            pool = {"account": c11.ACCT_PATS, "address": c11.ADDR_PATS, "username": c11.USER_PATS, "hostname": c11.HOST_PATS}[key]
            r[key] = rng.choice([x for x in pool if x != r[key]])
        elif k == "svc-recase":
            # the name is data on the wire (X <service> ...): a case-only change is an in-place edit
            if not svcs:
                continue
            i = rng.randrange(len(svcs))
            svcs[i] = (recase(rng, svcs[i][0]), svcs[i][1])
        elif k == "rule-recase":
            # a rule without a class value gives its own name as the class
            if not rules:
                continue
            r = rng.choice(rules)
            r["name"] = recase(rng, r["name"])
        elif k == "rule-rename":
            if not rules:
                continue
            r = rng.choice(rules)
            free = [n for n in c11.NAMES if n.lower() not in [x["name"].lower() for x in rules]]
            if not free:
                continue
            r["name"] = rng.choice(free)
        kinds.append(k)
    return svcs, rules, kinds


DIRECTED = ["crit-add-then-change", "rule-add-then-change", "svc-add-then-change", "svc-remove-then-add", "svc-remove-all-then-add", "svc-change-and-back", "svc-readd-same", "rule-rename-and-back", "rule-remove-then-add",
            "crit-remove-then-add", "svc-swap-names", "svc-recase-xreply", "rule-recase-and-back", "same-size-edit", "same-address-across-reload", "value-recase-after-noop", "section-drop-then-restore",
            "xquery-section-drop-then-restore", "rule-strip-after-noop", "svc-table-full-then-replace", "svc-many-long-names-removed-after-noop",
            "value-shortened-to-prefix-after-noop", "svc-and-rule-added-together"]

SAME_SIZE = {"class": [("aaaa", "bbbb"), ("users", "opers")], "address": [("10.1.2.0/24", "10.1.3.0/24"), ("10.1.*", "10.2.*"), ("2001:db8::/32", "2001:db9::/32")],
             "account": [("alice", "bobby"), ("al*", "bo*")], "hostname": [("*.net", "*.org"), ("host?.net", "host?.org")], "username": [("joe", "jae"), ("~*", "j*")]}


def directed_chain(rng, kind, svcs, rules):
    """Multi-step edit sequences whose effect depends on what an earlier reload left behind."""
    names = list(SVC_NAMES)
    rng.shuffle(names)
    a, b, c = names[:3]
    pa, pb, pc = (rng.choice(proto.PROTOS) for _ in range(3))
    rules = [r for r in rules if "_plain" not in r]
    if not rules:
        rules = [r for r in c11.gen_rules(rng, bad=False) if "_plain" not in r]
    r0 = copy.deepcopy(rules)
    if kind == "svc-remove-then-add":
        steps = [[(a, pa), (b, pb)], [(b, pb)], [(b, pb), (c, pc)]]
        return [(s, r0, [kind] if i else []) for i, s in enumerate(steps)]
    if kind == "svc-remove-all-then-add":
        steps = [[(a, pa)], [], [(c, pc)]]
        return [(s, r0, [kind] if i else []) for i, s in enumerate(steps)]
    if kind == "svc-change-and-back":
        pa2 = rng.choice([p for p in proto.PROTOS if p != pa])
        steps = [[(a, pa), (b, pb)], [(a, pa2), (b, pb)], [(a, pa), (b, pb)]]
        return [(s, r0, [kind] if i else []) for i, s in enumerate(steps)]
    if kind == "svc-readd-same":
        pa2 = rng.choice(proto.PROTOS)
        steps = [[(a, pa), (b, pb)], [(b, pb)], [(a, pa2), (b, pb)]]
        return [(s, r0, [kind] if i else []) for i, s in enumerate(steps)]
    if kind == "svc-swap-names":
        steps = [[(a, pa), (b, pb)], [(a, pb), (b, pa)], [(b, pa), (c, pb)]]
        return [(s, r0, [kind] if i else []) for i, s in enumerate(steps)]
    if kind == "svc-recase-xreply":
        # a service is re-spelled while earlier clients still wait on the old spelling, and a rule asks whether it said OK
        # (the rule sorts before every other one, so that it decides for every client the service vouches for)
        rr = [{"name": "00first", "xreply_ok": a, "class": "vouched"}] + [r for r in copy.deepcopy(r0) if r["name"].lower() != "00first"]
        pl = rng.choice(["login", "combined", "login-ipr"]) if set(["login", "combined", "login-ipr"]) <= set(proto.PROTOS) else pa
        a2 = recase(rng, a)
        a3 = recase(rng, a2)
        return [([(a, pl), (b, pb)], rr, []), ([(a2, pl), (b, pb)], rr, [kind]), ([(a3, pl), (b, pb)], rr, [kind])]
    if kind == "value-recase-after-noop":
        # an unchanged reload first (every node has then been compared once), then an edit that only changes the letter case of a
        # value: class names and glob patterns are case-sensitive data
        key = rng.choice(["class", "account", "hostname", "username"])
        vals = {"class": ("Users", "users"), "account": ("Ali*", "ali*"), "hostname": ("*.Example.org", "*.example.org"), "username": ("Joe", "joe")}[key]
        # the edited rule sorts first and has nothing but this criterion, so that the probes it should (not) match show it
        base = [{"name": "00first", "class": "Users", key: vals[0]}] + [r for r in copy.deepcopy(r0) if r["name"].lower() != "00first"]
        r1 = copy.deepcopy(base)
        r1[0][key] = vals[1]
        sv_ = [(a, pa), (b, pb)]
        return [(sv_, base, []), (sv_, copy.deepcopy(base), [kind]), (sv_, r1, [kind])]
    if kind == "svc-table-full-then-replace":
        # the table is as full as it can get (32 services), one is taken out, then another name is added: there is room for it
        full = [("s%02d.example.net" % k, proto.PROTOS[(k + len(rules)) % len(proto.PROTOS)]) for k in range(32)]
        rng.shuffle(full)
        out_ = rng.randrange(32)
        less = full[:out_] + full[out_ + 1:]
        more = less + [(rng.choice(["late.example.net", "a-first.example.net", "zz-last.example.net"]), rng.choice(proto.PROTOS))]
        return [(full, r0, []), (less, r0, [kind]), (more, r0, [kind])]
    if kind == "svc-many-long-names-removed-after-noop":
        # many services with long names are removed by ONE reload that is not the daemon's first
        many = [("dronecheck-%02d.long-name.example.org" % k, rng.choice(["dronecheck", "login"])) for k in range(rng.choice([12, 16, 24]))]
        keep = [(a, pa), (b, pb)]
        return [(many + keep, r0, []), (many + keep, r0, [kind]), (keep, r0, [kind])]
    if kind == "value-shortened-to-prefix-after-noop":
        # an unchanged reload first, then a value is edited in place to a proper prefix of what it was (login-ipr -> login, ali* -> ali)
        which = rng.choice(["proto", "account", "class", "hostname"])
        base = [{"name": "00first", "class": "users2", "account": "ali*", "hostname": "*.example.org"}] + [r for r in copy.deepcopy(r0) if r["name"].lower() != "00first"]
        if which != "account":
            base[0].pop("account")
        if which != "hostname":
            base[0].pop("hostname")
        r1 = copy.deepcopy(base)
        sv_a, sv_b = [(a, "login-ipr"), (b, pb)], [(a, "login-ipr"), (b, pb)]
        if which == "proto":
            sv_b = [(a, "login"), (b, pb)]
        elif which == "account":
            r1[0]["account"] = "ali"
        elif which == "class":
            r1[0]["class"] = "users"
        else:
            r1[0]["hostname"] = "*.example"
        return [(sv_a, base, []), (sv_a, copy.deepcopy(base), [kind]), (sv_b, r1, [kind])]
    if kind == "svc-and-rule-added-together":
        # one reload adds a service and, in the other section, the rule that asks for that service's OK
        newsvc = rng.choice(["added.svc", "Aaa.first.svc", "zzz.last.svc"])
        base = [r for r in copy.deepcopy(r0) if r["name"].lower() != "00first"]
        r1 = [{"name": "00first", "xreply_ok": newsvc, "class": "checked"}] + copy.deepcopy(base)
        sv_ = [(a, pa), (b, pb)]
        return [(sv_, base, []), (sv_, copy.deepcopy(base), [kind]), (sv_ + [(newsvc, rng.choice(["dronecheck", "login"]))], r1, [kind])]
    if kind == "rule-strip-after-noop":
        # an unchanged reload first, then one rule (the first or the last one looked at) loses all its settings in one go
        nm = rng.choice(["00first", "zzlast"])
        base = [r for r in copy.deepcopy(r0) if r["name"].lower() != nm] + [{"name": nm, "class": "tenners", "address": "10.0.0.0/8"}]
        if nm == "zzlast":
            for r in base[:-1]:
                r.setdefault("address", "11.0.0.0/8")     # nobody before it is a catch-all
        r1 = copy.deepcopy(base)
        r1[-1] = {"name": nm}
        sv_ = [(a, pa), (b, pb)]
        return [(sv_, base, []), (sv_, copy.deepcopy(base), [kind]), (sv_, r1, [kind])]
    if kind in ("section-drop-then-restore", "xquery-section-drop-then-restore"):
        # the whole section disappears from the file and comes back (with other content) by a later reload
        sv_ = [(a, pa), (b, pb)]
        r2 = copy.deepcopy(r0)
        r2[0]["class"] = "restored"
        if kind == "section-drop-then-restore":
            return [(sv_, r0, []), (sv_, [], [kind]), (sv_, r2, [kind])]
        return [(sv_, r0, []), (None, r0, [kind]), ([(a, pb), (c, pc)], r0, [kind])]
    if kind in ("same-size-edit", "same-address-across-reload"):
        # edits that leave the file's length unchanged (the file is overwritten in place by every second reload, within the same
        # second): one setting of the first rule flips between two values of equal length, and a service swaps protocol names of equal length
        key = "address" if kind == "same-address-across-reload" else rng.choice(sorted(SAME_SIZE))
        x, y = rng.choice(SAME_SIZE[key])
        base = copy.deepcopy(r0)
        base[0][key] = x
        if key != "class":
            base[0]["class"] = "flip"
        r1 = copy.deepcopy(base)
        r1[0][key] = y
        return [([(a, pa), (b, pb)], base, []), ([(a, pa), (b, pb)], r1, [kind]), ([(a, pa), (b, pb)], copy.deepcopy(base), [kind])]
    sv = [(a, pa), (b, pb)]
    if kind == "rule-recase-and-back":
        r1 = copy.deepcopy(r0)
        r1[0].pop("class", None)
        base = copy.deepcopy(r1)
        r1[0]["name"] = recase(rng, r1[0]["name"])
        return [(sv, base, []), (sv, r1, [kind]), (sv, copy.deepcopy(base), [kind])]
    if kind == "svc-add-then-change":
        pc2 = rng.choice([p for p in proto.PROTOS if p != pc])
        steps = [sv, sv + [(c, pc)], sv + [(c, pc2)]]
        return [(s_, r0, [kind] if i else []) for i, s_ in enumerate(steps)]
    if kind == "crit-add-then-change":
        # reload 1 adds a criterion to an existing rule, reload 2 edits that criterion in place
        r1 = copy.deepcopy(r0)
        key = rng.choice(["account", "address", "username", "hostname"])
        pool = {"account": c11.ACCT_PATS, "address": c11.ADDR_PATS, "username": c11.USER_PATS, "hostname": c11.HOST_PATS}[key]
        base = copy.deepcopy(r0)
        base[0].pop(key, None)
        r1 = copy.deepcopy(base)
        r1[0][key] = rng.choice(pool)
        r2 = copy.deepcopy(r1)
        r2[0][key] = rng.choice([x for x in pool if x != r1[0][key]])
        return [(sv, base, []), (sv, r1, [kind]), (sv, r2, [kind])]
    if kind == "rule-add-then-change":
        # reload 1 adds a rule, reload 2 changes its class / a criterion in place
        new = [r for r in c11.gen_rules(rng, bad=False) if r["name"].lower() not in [x["name"].lower() for x in r0]]
        if not new:
            new = [{"name": "zzz9", "class": "late"}]
        r1 = copy.deepcopy(r0) + [dict(new[0], **{"class": "added"})]
        r2 = copy.deepcopy(r1)
        r2[-1]["class"] = "changed"
        if rng.random() < 0.5:
            r2[-1]["address"] = rng.choice(c11.ADDR_PATS)
        return [(sv, r0, []), (sv, r1, [kind]), (sv, r2, [kind])]
    if kind == "rule-rename-and-back":
        r1 = copy.deepcopy(r0)
        free = [n for n in c11.NAMES if n.lower() not in [x["name"].lower() for x in r1]]
        r1[0]["name"] = rng.choice(free)
        return [(sv, r0, []), (sv, r1, [kind]), (sv, copy.deepcopy(r0), [kind])]
    if kind == "rule-remove-then-add":
        r1 = copy.deepcopy(r0)[1:]
        r2 = copy.deepcopy(r1) + [dict(r0[0], **{"class": "readded"})]
        return [(sv, r0, []), (sv, r1, [kind]), (sv, r2, [kind])]
    # crit-remove-then-add
    r1 = copy.deepcopy(r0)
    victim = r1[0]
    key = next((k for k in ("account", "address", "username", "hostname", "xreply_ok") if k in victim), None)
    if key is None:
        victim["address"] = "10.1.2.0/24"
        r0 = copy.deepcopy(r1)
        key = "address"
    old = victim.pop(key)
    r2 = copy.deepcopy(r1)
    pool = {"account": c11.ACCT_PATS, "address": c11.ADDR_PATS, "username": c11.USER_PATS, "hostname": c11.HOST_PATS, "xreply_ok": ["login.svc", "drone.svc"]}[key]
    r2[0][key] = rng.choice(pool)
    return [(sv, r0, []), (sv, r1, [kind]), (sv, r2, [kind])]


def normalise(line):
    line = re.sub(r"\b([0-9a-f]+)_[0-9a-f]+\b", r"\1_S", line)
    return line


def probe_events(s, seed, nprobes, base_id):
    """Run the probe set; returns the conversation [(input line, sorted output lines)] with serials normalised."""
    rng = random.Random(seed)
    start = len(s.trace.steps)
    for k in range(nprobes):
        c11.probe(s, rng, base_id + k, None)
        if s.dead:
            break
    s.do({"t": "config"})
    conv = []
    for ev, out in s.trace.steps[start:]:
        o = []
        for ln in out:
            if ln.startswith("S "):
                continue
            if ln.startswith("A xquery :-"):
                continue
            o.append(normalise(ln))
        conv.append((normalise(proto.render(ev)), sorted(o)))
    return conv


def storm_chain(rng, kind):
    """Many reloads in a row: each one brings in a service under a new name (and drops the previous newcomer), or flips one rule's class;
    what is left at the end is small - a daemon freshly started on the last file must behave the same."""
    n = rng.choice([33, 40])
    keep = ("a.perm", rng.choice(proto.PROTOS))
    rules = [{"name": "r1", "class": "c0"}, {"name": "r2", "address": "10.*", "class": "ten"}]
    chain = []
    for k in range(n + 1):
        sv = [keep, ("tmp%02d.svc" % k, rng.choice(proto.PROTOS))]
        if kind == "rule-storm":
            rules = copy.deepcopy(rules)
            rules[0]["class"] = "c%d" % k
            sv = [keep]
        chain.append((sv, copy.deepcopy(rules), [kind] if k else []))
    return chain


def _worker(a):
    b, seed = a["build"], a["seed"]
    rng = random.Random(seed)
    chain = []
    svcs, rules = gen_config(rng)
    chain.append((svcs, rules, []))
    if a.get("directed") in ("rename-storm", "rule-storm"):
        chain = storm_chain(rng, a["directed"])
    elif a.get("directed"):
        chain = directed_chain(rng, a["directed"], svcs, rules)
    else:
        for _ in range(a["nreloads"]):
            ns, nr, kinds = edit(rng, chain[-1][0], chain[-1][1])
            chain.append((ns, nr, kinds))
    cfgs = [proto.Config(sv or [], timeout=3600, rules=ru, use_class=True) for sv, ru, k in chain]
    for c_, (sv, ru, k) in zip(cfgs, chain):
        c_.omit_xquery = sv is None
    probe_seed = rng.randrange(1 << 30)
    nprobes = a["nprobes"]
    res = {"viol": [], "stats": {"config_pairs": 1, "reloads": 0, "probe_steps_compared": 0, "edits": {}, "probes": 0, "same_address_straddles_reload": 0}, "inconc": [],
           "hash": vcommon.h([seed]), "nontrivial": any(k for _, _, k in chain[1:])}
    for _, _, kinds in chain[1:]:
        for k in kinds:
            res["stats"]["edits"][k] = res["stats"]["edits"].get(k, 0) + 1
    # daemon A: old config, some pre-reload traffic, then reload(s)
    # how the new file gets there: now and then the -f name goes through a symbolic link that is re-pointed (to a file, or one of its
    # directories), or the first SIGUSR1 after the file was installed fails for want of file descriptors and a second one follows
    delivery = a.get("delivery")
    res["stats"]["reloads_through_a_repointed_link"] = 0
    res["stats"]["reloads_after_a_failed_attempt"] = 0
    sa = proto.Session(b, cfgs[0], leaks=True, link={"symlink-file": "file", "symlink-dir": "dir"}.get(delivery))
    sb = None
    try:
        pre = random.Random(seed ^ 0x5bd1e995)
        left_waiting = False
        npre = max(a["npre"], 3) if a.get("directed") == "svc-recase-xreply" else a["npre"]
        if a.get("directed") == "svc-table-full-then-replace":
            npre = 4
        for k in range(npre):
            cid = 900 + k
            how = pre.random()
            if a.get("directed") == "svc-table-full-then-replace":
                # both kinds of abandoned client; in every second job of this chain a third one that stays, waiting (the known corner)
                how = [0.7, 0.9, 0.62 if a.get("variant", 0) % 2 else 0.1, 0.1][k]
            if a.get("directed") == "svc-recase-xreply" and k == 0:
                how = 0.7
            if how < 0.6:
                c11.probe(sa, pre, cid, None)            # brought to a verdict (or disconnected at the end)
            else:
                # abandoned while a service still owes an answer (per-service reference counts stay non-zero)
                sa.do({"t": "announce", "id": cid, "ip": "10.9.9.9", "port": 999})
                sa.do({"t": "password", "id": cid, "text": "+x zed pw"})
                sa.do({"t": "hurry", "id": cid})
                if (a.get("directed") == "svc-recase-xreply" and k == 0) or 0.6 <= how < 0.68:
                    left_waiting = True
                    continue       # ... and one that is still there, waiting, when the reloads happen
                if how > 0.8:
                    # ... and whose id is announced again (the previous holder is replaced, not withdrawn)
                    sa.do({"t": "announce", "id": cid, "ip": "10.9.9.8", "port": 998})
                if cid in sa.open:
                    sa.do({"t": "disconnect", "id": cid})
        # the first probe after the last reload comes from the address the last client before it came from (a per-address
        # cache that survives the reload would serve it the old answer)
        first_ip = random.Random(probe_seed).choice(c11.IPS)
        for step in range(1, len(cfgs)):
            if step == len(cfgs) - 1 and (a.get("directed") == "same-address-across-reload" or seed % 3 == 0):
                c11.probe(sa, pre, 990, None, ip=first_ip)
                res["stats"]["same_address_straddles_reload"] = 1
            sa.d.reload(cfgs[step].text(b["moddir"]), fail_first=(delivery == "failed-first" and step == len(cfgs) - 1))
            res["stats"]["reloads"] += 1
            res["stats"]["reloads_through_a_repointed_link"] += 1 if sa.d.link else 0
            res["stats"]["reloads_after_a_failed_attempt"] += 1 if (delivery == "failed-first" and step == len(cfgs) - 1) else 0
            if step < len(cfgs) - 1:
                # traffic between two reloads
                c11.probe(sa, pre, 950 + step, None)
        conv_a = probe_events(sa, probe_seed, nprobes, 2000)
        ra = sa.finish()
        sb = proto.Session(b, cfgs[-1], leaks=True)
        conv_b = probe_events(sb, probe_seed, nprobes, 2000)
        rb = sb.finish()
    except (daemon.Died, daemon.Hang):
        try:
            rr = sa.d.finish() if sa.res is None else sa.res
        except Exception:
            rr = None
        sa.kill()
        if sb:
            sb.kill()
        ev = rr.crash_events() if rr else [("died", "?")]
        res["viol"].append(("C17", "reload-crash", "reload-crash:%s|%s" % (ev[0] if ev else ("died", "?")),
                            "the daemon died while reloading / probing: %s\n%s\nold config:\n%s\nnew config:\n%s" % (
                                ev, rr.stderr[-2000:] if rr else "", cfgs[-2].text("<moddir>"), cfgs[-1].text("<moddir>")),
                            {"seed": seed, "nreloads": a["nreloads"], "nprobes": nprobes, "npre": a["npre"]}))
        return res
    except Exception:
        sa.kill()
        if sb:
            sb.kill()
        raise
    res["stats"]["probes"] = nprobes
    res["sample"] = {"edits": [ks for _, _, ks in chain[1:]], "old_config": cfgs[0].text("<moddir>"), "new_config": cfgs[-1].text("<moddir>"),
                     "probe_conversation_head": conv_a[:12]}
    if not ra.clean() or not rb.clean():
        res["inconc"].append("daemon unclean (%s / %s); see C08/C15" % (ra.describe(), rb.describe()))
        return res
    n = max(len(conv_a), len(conv_b))
    for k in range(n):
        x = conv_a[k] if k < len(conv_a) else None
        y = conv_b[k] if k < len(conv_b) else None
        res["stats"]["probe_steps_compared"] += 1
        if x != y:
            kinds = sorted(set(kk for _, _, ks in chain[1:] for kk in ks))
            if left_waiting and a.get("directed") == "svc-table-full-then-replace":
                # the one case in which the reloaded daemon legitimately has something the fresh one has not: a client that still
                # waits on the removed service keeps that service's table slot, and the table was full (see known_findings.json)
                kinds = [kk + "+waiting-client" for kk in kinds]
            area = "services" if (x and y and any(l.startswith("X ") or l.startswith("A xquery") for l in (x[1] + y[1]))) else "rules"
            text = ("after reload %s a probe is treated differently from a daemon started on the new file\n  reloaded: %s\n  fresh:    %s\n"
                    "edits: %s\nold config:\n%s\nnew config:\n%s" % (
                        "x%d" % (len(cfgs) - 1), x, y, [ks for _, _, ks in chain[1:]], cfgs[-2].text("<moddir>"), cfgs[-1].text("<moddir>")))
            res["viol"].append(("C17", "stale-" + area, "stale-%s:%s" % (area, "+".join(kinds) or "none"), text,
                                {"seed": seed, "nreloads": a["nreloads"], "nprobes": nprobes, "npre": a["npre"], "directed": a.get("directed"), "variant": a.get("variant", 0), "delivery": delivery}))
            break
    return res


def _queued_worker(a):
    """Input that is already queued when the reload happens.  The daemon is stopped (SIGSTOP), the file is edited, SIGUSR1 is sent
    and a stream of short client sessions is written to its input; then it continues.  Its output is one stream: every verdict
    written before the guarded reload marker must follow the old rules, every verdict written after it the new ones."""
    import signal
    import classmodel
    b, seed = a["build"], a["seed"]
    rng = random.Random(seed)
    res = {"viol": [], "stats": {"queued_runs": 1, "queued_verdicts_before_marker": 0, "queued_verdicts_after_marker": 0, "queued_verdicts_that_tell_old_from_new": 0}, "inconc": [],
           "hash": vcommon.h(["q", seed]), "nontrivial": False}
    for _ in range(20):
        old = [r for r in c11.gen_rules(rng, bad=False)]
        for r in old:
            r.pop("xreply_ok", None)
            r.pop("account", None)
        new = c11.edit_rules(rng, old)
        if rng.random() < 0.6:
            # the edit an administrator makes most: one rule's address, in place
            real = [r for r in new if "_plain" not in r]
            if real:
                r = rng.choice(real)
                r["address"] = rng.choice([x for x in c11.ADDR_PATS if x != r.get("address")])
        for r in new:
            r.pop("xreply_ok", None)
            r.pop("account", None)
        if old != new:
            break
    cfg_old = proto.Config([], timeout=3600, rules=old, use_class=True)
    cfg_new = proto.Config([], timeout=3600, rules=new, use_class=True)
    clients = {}
    blob = []
    for k in range(a["nclients"]):
        cid = 100 + k
        ip = rng.choice(c11.IPS)
        ident = rng.choice([x for x in c11.IDENTS if x])
        host = rng.choice([x for x in c11.HOSTS if x])
        clients[cid] = {"account": None, "addr": c11._addr_value(ip), "ident": ident, "hostname": host, "ok_services": set(), "cli_username": "u"}
        lines = ["%d C %s %d 10.0.0.1 6667" % (cid, ip, 1000 + k), "%d N %s" % (cid, host), "%d u %s" % (cid, ident), "%d n n%d" % (cid, k), "%d U u x x :r" % cid, "%d H cl" % cid]
        blob += lines
        for _ in range(rng.choice([0, 1, 3, 8])):
            blob.append("%d %s %s" % (rng.choice([4242, 31337]), rng.choice("NunPH"), "f" * rng.choice([10, 60, 200])))
    data = ("\n".join(blob) + "\n").encode("latin-1")
    d = daemon.Daemon(b, cfg_old.text(b["moddir"]), leaks=True, hooks=True, watchdog=60.0)
    try:
        d.start()
        d.p.send_signal(signal.SIGSTOP)
        with open(d.conf_path, "w", encoding="latin-1") as f:
            f.write(cfg_new.text(b["moddir"]))
        d.p.send_signal(signal.SIGUSR1)
        pre = rng.choice([0, 0, 1, 2])      # some of the stream may be read before the signal is seen; the oracle does not care which
        d._write(data[:60000])
        d.p.send_signal(signal.SIGCONT)
        if len(data) > 60000:
            d._write(data[60000:])
        r_ = d.finish()
        out = r_.tail
    except (daemon.Died, daemon.Hang):
        d.kill()
        res["inconc"].append("daemon died / hung in a queued-input run")
        return res
    if not r_.clean():
        res["inconc"].append("daemon unclean in a queued-input run (%s); see C08" % (r_.describe(),))
        return res
    if "#verif reload" not in out:
        res["inconc"].append("no reload marker in a queued-input run")
        return res
    mark = out.index("#verif reload")
    for idx, ln in enumerate(out):
        m = re.match(r"^D (\d+) \S+ \d+(?: (\S+))?$", ln)
        if not m or int(m.group(1)) not in clients:
            continue
        cid = int(m.group(1))
        after = idx > mark
        want_old = classmodel.evaluate(old, clients[cid])[0]
        want_new = classmodel.evaluate(new, clients[cid])[0]
        res["stats"]["queued_verdicts_after_marker" if after else "queued_verdicts_before_marker"] += 1
        if want_old != want_new:
            res["stats"]["queued_verdicts_that_tell_old_from_new"] += 1
            res["nontrivial"] = True
        want = want_new if after else want_old
        want = want[:62] if want else want      # the class field of a request holds 62 characters
        if m.group(2) != want and not res["viol"]:
            res["viol"].append(("C17", "queued-input", "queued-input:%s" % ("after-reload" if after else "before-reload"),
                                "client %d's verdict %r was written %s the reload had finished (marker at output line %d, verdict at line %d) and must follow the %s rules: class %r expected\n"
                                "old rules: %s\nnew rules: %s\noutput around the marker: %s" % (
                                    cid, ln, "after" if after else "before", mark, idx, "new" if after else "old", want, old, new, out[max(0, mark - 3):mark + 6]),
                                {"seed": seed, "queued": True, "nclients": a["nclients"]}))
    res["sample"] = {"queued_input_head": blob[:8], "old_rules": old, "new_rules": new, "marker_at_output_line": mark}
    return res


def run(chk, tier, scale=1.0):
    b = prun.build_daemon("c17-" + tier)
    qjobs = [dict(build=b, seed=random.Random("c17q/%d/%d" % (chk.seed, i)).randrange(1 << 30), nclients=60) for i in range(int((40 if tier == "quick" else 800) * scale) or 1)]
    for r in vcommon.pmap(_queued_worker, qjobs):
        chk.add_case(r["hash"], r["nontrivial"])
        if r.get("sample"):
            chk.sample(r["sample"], limit=1)
        chk.merge_counts(r["stats"])
        for w in r["inconc"]:
            chk.inconc(w)
        for (p, rule, sig, text, wit) in r["viol"]:
            chk.violation(Violation(p, rule, sig, text, wit))
    chk.require("queued_verdicts_after_marker", 200 * min(1.0, scale))
    npairs = int((160 if tier == "quick" else 4000) * scale)
    ntriples = int((48 if tier == "quick" else 1000) * scale)
    jobs = []
    for i in range(npairs + ntriples):
        rng = random.Random("c17/%d/%d" % (chk.seed, i))
        jobs.append(dict(build=b, seed=rng.randrange(1 << 30), nreloads=1 if i < npairs else 2, nprobes=14, npre=rng.choice([0, 2, 4]),
                         delivery={3: "symlink-file", 5: "symlink-dir", 7: "failed-first"}.get(i % 8)))
    for i in range(4 if tier == "quick" else 40):
        rng = random.Random("c17s/%d/%d" % (chk.seed, i))
        jobs.append(dict(build=b, seed=rng.randrange(1 << 30), nreloads=34, nprobes=10, npre=rng.choice([0, 2]), directed="rename-storm" if i % 2 == 0 else "rule-storm"))
    ndir = int((5 * len(DIRECTED) if tier == "quick" else 70 * len(DIRECTED)) * scale)
    for i in range(ndir):
        rng = random.Random("c17d/%d/%d" % (chk.seed, i))
        jobs.append(dict(build=b, seed=rng.randrange(1 << 30), nreloads=2, nprobes=14, npre=rng.choice([0, 2, 4]), directed=DIRECTED[i % len(DIRECTED)], variant=i // len(DIRECTED)))
    for r in vcommon.pmap(_worker, jobs):
        chk.add_case(r["hash"], r["nontrivial"])
        if r.get("sample") and r["nontrivial"]:
            chk.sample(r["sample"], limit=2)
        edits = r["stats"].pop("edits")
        chk.merge_counts(r["stats"])
        for k, v in edits.items():
            chk.count("edit_" + k, v)
        for w in r["inconc"]:
            chk.inconc(w)
        for (p, rule, sig, text, wit) in r["viol"]:
            chk.violation(Violation(p, rule, sig, text, wit))
    chk.rule = ("(old, new) configuration pairs and (old, mid, new) triples over 5 service names x 4 protocols and random rule tables; edits: add / remove / change-in-place "
                "a service's protocol, add / remove / rename a rule, change its class, add / remove / change a criterion, alone and combined; daemon A is started on old, serves "
                "some clients (finished, or abandoned while a service owes an answer), is reloaded by a real SIGUSR1 (completion seen through the guarded marker), then gets 14 "
                "probe clients and `? config`; plus directed three-step chains (remove then add a service, remove all then add, change and change back, re-add the same name, swap names, rename a rule and back, remove then re-add a rule / criterion); queued-input runs: the daemon is stopped, the rule file edited, SIGUSR1 sent and 60 short client sessions written to its input before it continues - verdicts before the guarded reload marker must follow the old rules, verdicts after it the new ones (reference evaluator); daemon B is started directly on new and gets the same probes; every probe step's output must be equal (serials normalised, S lines "
                "and unconfigured '-' entries ignored); distinct = seed of the pair; non-trivial = at least one edit applied")
    chk.require("reloads", 150 * min(1.0, scale))
    chk.require("reloads_through_a_repointed_link", 20 * min(1.0, scale))
    chk.require("reloads_after_a_failed_attempt", 10 * min(1.0, scale))
    chk.require("probe_steps_compared", 10000 * min(1.0, scale))
    chk.assumptions += ["clients that are mid-registration across a reload are outside the statement ('arriving afterwards')"]


def replay(chk, rep):
    b = prun.build_daemon("c17-replay")
    w = rep["witness"]
    if w.get("queued"):
        r = _queued_worker(dict(build=b, seed=w["seed"], nclients=w["nclients"]))
        for v in r["viol"]:
            print(v[3])
        return 1 if r["viol"] else 0
    r = _worker(dict(build=b, seed=w["seed"], nreloads=w["nreloads"], nprobes=w["nprobes"], npre=w["npre"], directed=w.get("directed"), variant=w.get("variant", 0), delivery=w.get("delivery")))
    for v in r["viol"]:
        print(v[3])
    return 1 if r["viol"] else 0
