"""C12 - address text round-trips for every address (DESIGN.md C12)."""
import re

import build
import hrun
import vcommon
from vcommon import Violation

LEVEL = "exploration"
STAT_KEYS = ["evaluations", "accepted", "rejected", "libc_both", "libc_agree", "mask_true", "mask_false",
             "v4_text", "v6_text", "compressed", "leading0", "violations"]


def job(a):
    exe, argv, env, timeout = a
    r = hrun.run([exe] + argv, timeout=timeout, leaks=True, env=env)
    return (argv, r.rc, r.out[-8000:], r.err[-4000:], r.hang, r.crash_events(),
            [(s["kind"], s["func"], s["text"][:1500]) for s in r.sanitizer])


def build_exe(tag):
    out = build.fresh_dir(tag)
    return build.build_harness(out, "asan", "h_addr", "h_addr.c", ["modules/iauth_misc.c", "src/common.c"], libs=())


def build_fuzzer(tag):
    """libFuzzer build (clang 14, ASan+UBSan) of the same harness: check_string() on coverage-guided inputs."""
    out = build.fresh_dir(tag)
    return build.build_harness(out, "fuzz", "f_pton", "h_addr.c", ["modules/iauth_misc.c", "src/common.c"], libs=(), extra=["-DH_ADDR_FUZZ"],
                               link_extra=["-fsanitize=fuzzer"])


FUZZ_SEEDS = ["2001:DB8::/32", "FE80::1", "ABCD:EF01::*", "10.1.*", "2001:db8::/32", "1.2.3.4/27", "*", "::ffff:1.2.3.4", "1:2:3:4:5:6:7:8", "a::b:*", "::1/128", "0::", "1.2.3.4",
              "ffff:ffff:ffff:ffff:ffff:ffff:255.255.255.255/128", "::ffff:10.1.2.0/24", "a:2:3:4:c5:6:7::", "0:0:0:0:0:0:1.2.3.4", "127.*"]


def fuzz_job(a):
    """One libFuzzer process with a fixed number of runs; returns (argv, rc, stdout tail, stderr tail, hang, crash events, sanitizer, extra)."""
    import os, shutil, tempfile, daemon
    exe, seed, runs, maxlen = a
    d = tempfile.mkdtemp(prefix="fz-", dir=daemon.SCRATCH_ROOT)
    try:
        os.makedirs(os.path.join(d, "corpus"))
        for k, s in enumerate(FUZZ_SEEDS):
            with open(os.path.join(d, "corpus", "s%d" % k), "w") as f:
                f.write(s)
        argv = ["-max_len=%d" % maxlen, "-runs=%d" % runs, "-seed=%d" % seed, "-artifact_prefix=" + d + "/", "-print_final_stats=1", "corpus"]
        r = hrun.run([exe] + argv, timeout=3600, leaks=True, cwd=d)
        art = [f for f in os.listdir(d) if f.startswith("crash-") or f.startswith("timeout-") or f.startswith("oom-") or f.startswith("leak-")]
        inp = open(os.path.join(d, art[0]), "rb").read().decode("latin-1") if art else None
        m = re.search(r"stat::number_of_executed_units:\s*(\d+)", r.err)
        cov = re.findall(r"cov: (\d+) ft: (\d+) corp: (\d+)", r.err)
        return {"argv": ["f_pton"] + argv[:3], "rc": r.rc, "out": r.out[-3000:], "err": r.err[-2500:], "hang": r.hang, "crash": r.crash_events(),
                "executed": int(m.group(1)) if m else 0, "cov": [int(x) for x in cov[-1]] if cov else [0, 0, 0], "input": inp}
    finally:
        shutil.rmtree(d, ignore_errors=True)


def fuzz_digest(chk, prop, res, prefix_filter=None):
    for r in res:
        chk.add_case(" ".join(r["argv"]), r["executed"] > 0)
        chk.count("fuzzer_executions", r["executed"])
        chk.observed["fuzzer_coverage_edges"] = max(chk.observed.get("fuzzer_coverage_edges", 0), r["cov"][0])
        chk.observed["fuzzer_corpus_max"] = max(chk.observed.get("fuzzer_corpus_max", 0), r["cov"][2])
        viols = re.findall(r"^VIOL (\S+) (.*)$", r["out"], re.M)
        for rule, detail in viols[:3]:
            if prefix_filter and not rule.startswith(prefix_filter):
                continue
            chk.violation(Violation(prop, rule, rule, "libFuzzer input %r: %s" % (r["input"], detail), {"fuzz_input": r["input"], "detail": detail}))
        if not viols:
            for kind, func in r["crash"]:
                chk.violation(Violation(prop, "sanitizer", "%s|%s" % (kind, func), "libFuzzer input %r: %s in %s\n%s" % (r["input"], kind, func, r["err"][-1200:]),
                                        {"fuzz_input": r["input"]}))
            if r["rc"] != 0 and not r["crash"]:
                chk.inconc("fuzzer exit %d without a report: %s" % (r["rc"], r["err"][-300:]))
        if r["hang"]:
            chk.inconc("fuzzer timed out")


def digest(chk, prop, res, prefix_filter=None):
    """Fold harness results into the check; returns total stats."""
    tot = {}
    for argv, rc, so, se, hang, crash, san in res:
        case = " ".join(argv)
        m = re.search(r"STATS (.*)$", so, re.M)
        st = {}
        if m:
            st = {k: int(v) for k, v in re.findall(r"(\w+)=(\d+)", m.group(1))}
            for k, v in st.items():
                tot[k] = tot.get(k, 0) + v
        chk.add_case(case, st.get("evaluations", 0) > 0)
        viols = re.findall(r"^VIOL (\S+) (.*)$", so, re.M)
        for rule, detail in viols[:6]:
            if prefix_filter and not rule.startswith(prefix_filter):
                continue
            chk.violation(Violation(prop, rule, rule, "%s: %s" % (case, detail), {"argv": argv, "detail": detail}))
        for kind, func in crash:
            txt = [t for (kk, ff, t) in san if kk == kind and ff == func]
            chk.violation(Violation(prop, "sanitizer", "%s|%s" % (kind, func),
                                    "%s: %s in %s\n%s" % (case, kind, func, txt[0] if txt else se[-800:]), {"argv": argv}))
        if hang:
            chk.inconc("harness timed out: " + case)
        elif rc != 0 and not viols and not crash:
            chk.inconc("harness exit %d without report: %s %s" % (rc, case, se[-300:]))
        elif not m and not crash:
            chk.inconc("no STATS from " + case)
    return tot


def pattern_addr(rng):
    """An address text as ircd announces it, drawn from the abstraction that drives the printer: every group zero or 1-4 digits
    (a quarter with all eight groups at four digits: the 39-character texts), plus the IPv4 forms and the values next to them."""
    k = rng.random()
    if k < 0.25:
        return ":".join("%x" % rng.randrange(0x1000, 0x10000) for _ in range(8))
    if k < 0.6:
        groups = []
        for _ in range(8):
            nd = rng.choice([0, 0, 1, 2, 3, 4])
            groups.append("0" if nd == 0 else "%x" % rng.randrange(16 ** (nd - 1), 16 ** nd))
        return ":".join(groups)
    if k < 0.63:
        # octets written with leading zeros (read as decimal): the daemon's own text for them is the canonical one
        return rng.choice(["", "", "0::ffff:", "0::"]) + ".".join(rng.choice(["%d", "%02d", "%03d"]) % o for o in (rng.choice([1, 10, 127, 192, 255]), rng.randrange(256), rng.randrange(256), rng.randrange(1, 256)))
    if k < 0.7:
        return "%d.%d.%d.%d" % (rng.choice([1, 10, 127, 192, 255]), rng.randrange(256), rng.randrange(256), rng.randrange(256))
    if k < 0.8:
        return "0::%d.%d.%d.%d" % (rng.choice([0, 0, 1, 10, 255]), rng.choice([0, 0, 7]), rng.randrange(256), rng.randrange(1, 256))
    return rng.choice(["0::1", "0::2", "0::ffff", "0::1:0", "0::ffff:0:1", "0::ffff:1.2.3.4", "0:0:0:0:0:ffff:0:0", "0::fffe:1.2.3.4", "1::", "0::",
                       "ffff:ffff:ffff:ffff:ffff:ffff:ffff:ffff", "0:0:0:0:1:0:0:0", "1:0:0:2:0:0:0:3", "1:0:0:0:2:0:0:3", "0:0:1:0:0:1:0:0", "0::0.0.0.1", "0::0.0.1.1"])


def _daemon_worker(a):
    """The text on the daemon's own output lines, in the situations where the request's text is (re-)made or carried over:
    plain accept, accept through the class rules (address criteria), accept by the request timer, an id announced again
    with another address right after something was said about its previous holder."""
    import random
    import proto
    import prun
    b, seed, n = a["build"], a["seed"], a["n"]
    rng = random.Random(seed)
    rules = rng.choice([None, [{"name": "a1", "address": "10.0.0.0/8", "class": "ten"}, {"name": "b2", "address": "2001:db8::/32", "class": "doc"}, {"name": "c3", "class": "rest"}],
                        [{"name": "m1", "address": "0.0.0.0/0", "class": "v4"}, {"name": "m2", "address": "0::/96", "class": "low"}, {"name": "m3", "address": "*", "class": "any"}]])
    svcs = rng.choice([[], [("login.svc", "login")], [("drone.svc", "dronecheck")]])
    cfg = proto.Config(svcs, timeout=rng.choice([None, 3600, 3600]), rules=rules or [], use_class=bool(rules))
    s = proto.Session(b, cfg, leaks=True)
    try:
        nxt_ip = None
        for k in range(n):
            cid = rng.choice([5, 6, 7, 4000 + k])
            if cid in s.open:
                s.do({"t": "disconnect", "id": cid})
            flow = rng.choice(["plain", "timer", "again", "again"])
            reps = 2 if flow == "again" else 1
            for rep in range(reps):
                # the local address (the listener the client connected to) is an address text like any other: now and then it is, letter
                # for letter, the text the NEXT client will be announced with (a listener's own address connecting to another listener)
                ip_ = nxt_ip if nxt_ip is not None else pattern_addr(rng)
                nxt_ip = pattern_addr(rng) if seed % 2 else None
                if seed % 3 == 0 and rep == 0 and k % 4 == 1:
                    # two clients in a row whose address texts are long spellings (40 characters and more) that differ only at
                    # the very end: each is the address it says
                    hi_ = "%x:%04x:0000:0000:0000:0000:192.168.%d." % (0x2001 + k, 0xdb8, 100 + k % 100)
                    twin = 8000 + k
                    s.do({"t": "announce", "id": twin, "ip": hi_ + "200", "port": 7})
                    ip_ = hi_ + "201"
                    twin_pending = twin
                else:
                    twin_pending = None
                ev_ = {"t": "announce", "id": cid, "ip": ip_, "port": rng.choice([1, 1024, 65535])}
                if nxt_ip is not None and rng.random() < 0.5:
                    ev_["lip"] = nxt_ip
                elif nxt_ip is not None and rng.random() < 0.3:
                    ev_["lip"] = pattern_addr(rng)
                s.do(ev_)
                if twin_pending is not None:
                    s.do({"t": "hurry", "id": twin_pending})
                    if twin_pending in s.open:
                        s.do({"t": "disconnect", "id": twin_pending})
                evs = [{"t": "host", "id": cid, "name": "h%d.example.org" % k}, {"t": "ident", "id": cid, "name": "~u"}, {"t": "nick", "id": cid, "name": "n%d" % k},
                       {"t": "userinfo", "id": cid, "user": "u", "real": "r"}]
                rng.shuffle(evs)
                if svcs and rng.random() < 0.5:
                    evs.insert(rng.randrange(len(evs)), {"t": "password", "id": cid, "text": "+x acct%d pw" % k})
                for e in evs:
                    if cid in s.open:
                        s.do(e)
                if cid in s.open:
                    s.do({"t": "hurry", "id": cid})
                # the holder is now decided, or soft-held with a 'd' line said about it; 'again' announces the id anew at this point
            st = s.open.get(cid)
            if st and flow == "timer" and cfg.timeout:
                s.do({"t": "timeout", "id": cid})
            st = s.open.get(cid)
            for sv in sorted(st["awaiting"]) if st else []:
                if cid in s.open:
                    s.do({"t": "reply", "svc": sv, "tag": s.open[cid]["tag"], "text": rng.choice(["OK", "OK acct:1", "NO go away", "AGAIN once more"])})
            if cid in s.open:
                s.do({"t": "timeout", "id": cid})
            if s.dead:
                break
        s.finish()
    except Exception:
        s.kill()
        raise
    r = prun.post(s, b, cfg, ["C09"], seed, do_shrink=True)
    # what C09's monitor calls 'address' / 'grammar' on a client line is, for the texts drawn here, this property's question
    r["viol"] = [("C12", "daemon-line-" + rule, "daemon-line-" + sig, text, dict(wit, daemon=True)) for (p, rule, sig, text, wit) in r["viol"] if rule in ("address", "grammar")]
    return r


def run(chk, tier, scale=1.0):
    import prun
    bd = prun.build_daemon("c12d-" + tier)
    nd = int((48 if tier == "quick" else 800) * scale) or 1
    dres = vcommon.pmap(_daemon_worker, [dict(build=bd, seed=chk.seed * 7919 + i, n=30 if tier == "quick" else 60) for i in range(nd)])
    for r in dres:
        chk.add_case(r["hash"], r["nontrivial"])
        chk.count("daemon_histories")
        chk.count("daemon_client_lines_judged", r["stats"].get("client_lines", 0))
        chk.count("daemon_verdict_lines", r["stats"].get("verdicts", 0))
        for (p, rule, sig, text, wit) in r["viol"]:
            chk.violation(Violation(p, rule, sig, text, wit))
        for (kind, func, err, tail) in r["crash"]:
            if kind != "leak":
                chk.inconc("daemon crashed during an address history (%s in %s) - see C08" % (kind, func))
    chk.require("daemon_client_lines_judged", 1000 * min(1.0, scale))
    exe = build_exe("c12-" + tier)
    seed = chk.seed
    jobs = [(exe, ["ntop-patterns", str(d), str(d + 1)], None, 3600) for d in range(5)]
    nrand = int((400000 if tier == "quick" else 6000000) * scale)
    nsz = int((5000 if tier == "quick" else 60000) * scale)
    nmut = int((150000 if tier == "quick" else 2000000) * scale)
    for i in range(8):
        jobs.append((exe, ["ntop-random", str(seed * 100 + i), str(nrand // 8)], None, 3600))
    for i in range(2):
        jobs.append((exe, ["ntop-sizes", str(seed * 100 + i), str(nsz // 2)], None, 3600))
    # accepted plain addresses from the parser side: parse, print, and require a fixed point
    for i in range(4):
        jobs.append((exe, ["pton-mutate", str(seed * 100 + i), str(nmut // 4)], {"H_ADDR_NTOP": "1"}, 3600))
    for first in range(9):
        jobs.append((exe, ["pton-strings", "6" if tier == "quick" else "7", str(first)], {"H_ADDR_NTOP": "1"}, 7200))
    res = vcommon.pmap(job, jobs)
    tot = digest(chk, "C12", res, prefix_filter="ntop")
    npat = sum(int(x) for r in res for x in re.findall(r"^PATTERNS (\d+)", r[2], re.M))
    chk.count("digit_count_patterns", npat)
    for k in ("evaluations", "v4_text", "v6_text", "compressed", "leading0", "accepted"):
        chk.count({"evaluations": "addresses_or_strings_judged", "accepted": "strings_accepted_by_irc_pton"}.get(k, "printed_" + k), tot.get(k, 0))
    chk.extra["daemon_part"] = ("the real daemon is announced clients whose address texts are drawn from the same abstraction (a quarter of them the 39-character texts, the "
                                "IPv4-mapped / -compatible forms and their neighbours) and driven to a verdict plainly, through class rules with address criteria, by the request timer, "
                                "and as an id announced again with another address right after a line about its previous holder; every line the daemon writes about a client must carry "
                                "a text that denotes the announced address, does not begin with ':' and keeps the line well-formed")
    chk.rule = ("every one of the 5^8 digit-count patterns (each group zero or 1-4 hex digits) x 3 fillings, random "
                "128-bit values from 8 distributions (sparse, mapped, compatible, near-mapped, small), every out_size 1..40, "
                "and every plain address irc_pton accepts among exhaustive short strings / mutated seeds; a case is one "
                "harness slice, non-trivial when it judged >=1 address; per address: length < 40 = return value, no leading ':', "
                "irc_pton and inet_pton accept the text and read the same value (compatible -> mapped), parse+print is a fixed point")
    chk.exhaustive = False
    chk.extra["exhaustive_subspace"] = "all %d digit-count patterns of the 8 groups" % npat
    chk.sample({"harness": "h_addr ntop-patterns 0 1", "meaning": "first group zero, all 5^7 patterns of the rest, fillings min/max/random"})
    chk.sample({"harness": "h_addr ntop-random %d %d" % (seed * 100, nrand // 8)})
    chk.require("digit_count_patterns", 390625)
    chk.require("printed_compressed", 1000)
    chk.assumptions += ["glibc inet_pton is the reference parser", "irc_ntop buffers are exact-size heap blocks under ASan"]


def replay(chk, rep):
    if rep["witness"].get("daemon"):
        import prun
        return prun.replay_witness(chk, rep, ["C09"])
    exe = build_exe("c12-replay")
    r = hrun.run([exe] + rep["witness"]["argv"], timeout=3600, env={"H_ADDR_NTOP": "1"})
    print(r.out[-3000:])
    print(r.err[-3000:])
    return 1 if r.rc != 0 else 0
