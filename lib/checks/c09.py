"""C09 - the server channel carries only well-formed, correctly addressed messages (DESIGN.md C09).

These runs use NO hook: no '#' pseudo-commands, no IAUTHD_VERIF_* environment.
"""
import ipaddress
import os
import random
import re
import signal
import time

import daemon
import gen
import proto
import prun
import vcommon
from vcommon import Violation

LEVEL = "exploration"
PROPS = ["C09"]

LOGS = [
    "",
    '"*.*" "file:all.log";',
    '"*.>=warning" "file:warn.log"; "iauth.*" ("file:iauth.log", "file:all.log"); "core.<=info" "file:core.log"; "config.*" "file:config.log";',
    '"*.*" "file:all.log"; verbose_timestamp false;',
    '"iauth_xquery.debug" "file:x.log"; "iauth.debug,command" "file:i.log"; verbose_timestamp true;',
]


def addr_texts(rng, pattern):
    """An announced address for a zero/non-zero group pattern (8 bits), in a random admissible spelling."""
    groups = []
    for g in range(8):
        if (pattern >> g) & 1:
            d = rng.choice([1, 2, 3, 4])
            groups.append(rng.randrange(16 ** (d - 1), 16 ** d))
        else:
            groups.append(0)
    v = 0
    for g in groups:
        v = (v << 16) | g
    a = ipaddress.IPv6Address(v)
    style = rng.random()
    if style < 0.4:
        t = a.compressed
    elif style < 0.7:
        t = ":".join("%x" % g for g in groups)
    elif style < 0.85:
        t = ":".join("%04X" % g for g in groups)
    else:
        t = a.exploded
    if t.startswith(":"):
        t = "0" + t
    return t


def special_addr(rng):
    k = rng.random()
    v4 = "%d.%d.%d.%d" % (rng.choice([0, 1, 10, 127, 128, 200, 255]), rng.randrange(256), rng.randrange(256), rng.randrange(256))
    if k < 0.06:
        # octets with leading zeros (decimal all the same), alone and inside the IPv6 forms
        return rng.choice(["", "", "0::", "0::ffff:"]) + ".".join(rng.choice(["%d", "%02d", "%03d"]) % int(o) for o in v4.split("."))
    if k < 0.1:
        # a text that denotes no address (the server does not write such, a confused one might): whatever the daemon makes of it,
        # every line about that client still carries a well-formed address text
        return rng.choice(["1.2.3", "1:2:3:zz", "host.example.net", "192.0.2.9.1", "1.2.3.256", "1.2.3.4x", "12345::1", "1:2:3:4:5:6:7:8:9", "g::1", "1.2.3.", "-1.2.3.4", "0x10.1.2.3"])
    if k < 0.4:
        return v4
    if k < 0.6:
        return "0::ffff:" + v4
    if k < 0.75:
        return "0::" + v4
    if k < 0.85:
        return "0:0:0:0:0:ffff:" + v4
    return rng.choice(["0::", "0::1", "1::", "ffff:ffff:ffff:ffff:ffff:ffff:ffff:ffff", "0:0:0:0:0:ffff:0:1", "0::ffff:0.0.0.1", "0::0.0.1.0", "0::1:0",
                       # next to the IPv4 forms: something in group 5 with ffff after it; periodic addresses (all four 32-bit words equal)
                       "0:0:0:0:1234:ffff:102:304", "0::1:ffff:102:304", "0:0:0:0:ffff:ffff:1:2", "0:0:0:1:0:ffff:1:2",
                       "0:1:0:1:0:1:0:1", "ffff:7:ffff:7:ffff:7:ffff:7", "1:1:1:1:1:1:1:1", "ffff:0:ffff:0:ffff:0:ffff:0",
                       # the longest texts
                       "1111:2222:3333:4444:5555:6666:7777:8888", "ABCD:EF01:2345:6789:ABCD:EF01:2345:6789"])


def client_lines(rng, cid, addr, port, serial, services):
    f = gen.Fields(rng, boundary=0.2)
    tag = "%x_%x" % (cid, serial)
    lines = ["%d C %s %d 10.0.0.1 6667" % (cid, addr, port)]
    data = ["%d N %s" % (cid, f.host()) if rng.random() < 0.7 else "%d d" % cid,
            "%d u %s" % (cid, f.ident() or "") if rng.random() < 0.8 else "%d u" % cid,
            "%d n %s" % (cid, f.nick()), "%d U %s :%s" % (cid, f.user(), f.real())]
    data = [d.rstrip() for d in data]
    if rng.random() < 0.7:
        data.append("%d P :%s" % (cid, f.password(rng.random() < 0.8)))
    rng.shuffle(data)
    lines += data
    if rng.random() < 0.2:
        lines.append("%d H" % cid)
    for name, p in services:
        if rng.random() < 0.06:
            # an over-long text: the daemon has to cut it, whatever it writes must still be one valid message
            big = "".join(rng.choice("abcdefghij klmnop%:") for _ in range(rng.choice([900, 1010, 1024, 1100, 3000])))
            lines.append("-1 X %s %s :%s %s" % (name, tag, rng.choice(["NO", "AGAIN", "MORE", "OK"]), big))
        elif rng.random() < 0.85:
            lines.append("-1 X %s %s :%s" % (name, tag, gen.reply_text(rng, rng.choice(["OK", "OKacct", "NO", "AGAIN", "MORE", "junk", "OK"]))))
        elif rng.random() < 0.5:
            lines.append("-1 x %s %s :Server not online" % (name, tag))
    if rng.random() < 0.3:
        lines.append("%d P :%s" % (cid, f.token() if rng.random() < 0.9 else "x" * rng.choice([1000, 1020, 1100, 2000])))
    lines.append(rng.choice(["%d H" % cid, "%d D" % cid, "%d T" % cid, "%d H" % cid]))
    return lines


NOISE = ["-1 ? bogus", "-1 ? stats", "-1 ? config", "-1 ? stats2", "-1 ?", "-1 M irc.example.net 20", "-1 E Oops :text", "-1 X nosuch.svc 1_1 :OK",
         "-1 X login.svc zz :OK", "99999 N host", "-1 ? %s%n"]


def _worker(a):
    b, seed, li, reloads = a["build"], a["seed"], a["logs"], a["reloads"]
    rng = random.Random(seed)
    services = gen.service_tables(rng, rng.choice([1, 2, 3]))
    use_class = rng.random() < 0.4
    rules = rng.choice([[{"name": "r1", "class": "c1", "trust_username": "yes"}],
                        [{"name": "a", "class": "v4", "address": "0.0.0.0/0"}, {"name": "b", "class": "rest"}]]) if use_class else []
    cfg = proto.Config(services, timeout=rng.choice([None, 3600]), rules=rules, use_class=use_class)
    conf = cfg.text(b["moddir"]) + ("logs {\n%s\n};\n" % LOGS[li] if LOGS[li] else "")
    nclients = rng.randint(12, 30)
    announced = {}
    streams = []
    # serial = ordinal of the announce line in the merged stream: decide the merge first
    for k in range(nclients):
        cid = rng.choice([k + 1, 1000 + k, 70000 + k, 2 ** 31 - 1 - k])
        if rng.random() < 0.55:
            addr = addr_texts(rng, a["patterns"][k % len(a["patterns"])])
        else:
            addr = special_addr(rng)
        port = rng.choice([0, 1, 1024, 65535, rng.randrange(65536)])
        announced[cid] = (addr, port)
        streams.append((cid, addr, port))
    order = []
    for idx, st in enumerate(streams):
        order += [idx] * 12
    rng.shuffle(order)
    serial = 0
    lines = []
    pending = {}
    for idx in order:
        cid, addr, port = streams[idx]
        if idx not in pending:
            serial += 1
            pending[idx] = client_lines(rng, cid, addr, port, serial, services)
        if pending[idx]:
            lines.append(pending[idx].pop(0))
        if rng.random() < 0.05:
            lines.append(rng.choice(NOISE))
    for idx in pending:
        lines += pending[idx]
    stats = {"histories": 1, "input_lines": len(lines), "stdout_lines": 0, "client_lines": 0, "distinct_addresses": len(set(x[0] for x in announced.values())),
             "reloads": 0, "log_files_written": 0, "xqueries": 0, "verdict_lines": 0}
    viol = []
    d = daemon.Daemon(b, conf, leaks=False, hooks=False, keep=True)
    out_lines = []
    fatal_expected = False
    try:
        chunks = [lines]
        if reloads:
            k = len(lines) // 3
            chunks = [lines[:k], lines[k:2 * k], lines[2 * k:]]
        for ci, ch in enumerate(chunks):
            try:
                d.raw(("\n".join(ch) + "\n").encode("latin-1"))
            except (daemon.Died, BrokenPipeError, OSError):
                break
            if ci + 1 < len(chunks):
                time.sleep(0.05)
                if ci == 0:
                    # the signal handlers are installed after the modules are up; a daemon that has answered input has them
                    # (no hook on this channel: the answer itself is the evidence; bounded wait, lateness is harmless)
                    import select as _select
                    t_end = time.time() + 8.0
                    while time.time() < t_end:
                        pos = d.buf.find(b"\nO ")
                        if pos >= 0 and d.buf.count(b"\n", pos + 1) >= 2:
                            break
                        r_, _, _ = _select.select([d.ofd], [], [], 0.2)
                        if r_:
                            c_ = os.read(d.ofd, 65536)
                            if not c_:
                                break
                            d.buf += c_
                kind = rng.choice(["broken", "typed", "same", "logs-change", "missing", "logs-unopenable"])
                if kind == "logs-unopenable":
                    # a log destination that cannot be opened is a fatal error (by design the daemon gives up with status 1);
                    # whatever it has to say about that belongs in its logs, not on the server channel
                    # (also a destination that names no file at all: `file`, `file:`)
                    newc = cfg.text(b["moddir"]) + 'logs {\n "*.*" "%s";\n};\n' % ["file:/nonexistent-directory/x/all.log", "file", "file:"][seed % 3]
                    fatal_expected = True
                elif kind == "broken":
                    newc = conf + "\niauth { timeout \n"
                elif kind == "typed":
                    newc = conf.replace("timeout 3600", "timeout 12parsecs") if "timeout 3600" in conf else conf + "\niauth { timeout pizza; };\n"
                elif kind == "logs-change":
                    newc = cfg.text(b["moddir"]) + "logs {\n%s\n};\n" % LOGS[(li + 1) % len(LOGS)]
                elif kind == "missing":
                    newc = None
                else:
                    newc = conf
                if newc is None:
                    os.unlink(d.conf_path)
                    d.p.send_signal(signal.SIGUSR1)
                    time.sleep(0.1)
                    with open(d.conf_path, "w") as f:
                        f.write(conf)
                else:
                    d.reload(newc, wait=False)
                    time.sleep(0.1)
                stats["reloads"] += 1
        r = d.finish()
        out_lines = r.tail
        for fn in os.listdir(d.dir):
            if fn.endswith(".log") and os.path.getsize(os.path.join(d.dir, fn)) > 0:
                stats["log_files_written"] += 1
    finally:
        import shutil
        shutil.rmtree(d.dir, ignore_errors=True)
    if fatal_expected and r.exit == 1 and not r.sanitizer and not r.hang:
        stats["runs_ended_by_a_fatal_configuration_error"] = 1
    elif not r.clean():
        return {"viol": [], "stats": stats, "inconc": ["daemon unclean (%s); see C08" % (r.describe(),)], "hash": vcommon.h([seed, li]), "nontrivial": False}
    # texts the services sent: a relayed challenge / retry / refusal text must be (a cut of) one of them - anything else on
    # such a line (e.g. the next message glued to an unterminated one) is not "a single valid message"
    sent_texts = {"C": [proto.UNLINKED_TEXT], "k": []}
    for l in lines:
        m = re.match(r"^-1 X \S+ \S+ :(NO|AGAIN|MORE) (.*)$", l, re.S)
        if m:
            sent_texts["k" if m.group(1) == "NO" else "C"].append(m.group(2))
    started = False
    for ln in out_lines:
        if not started:
            if ln.startswith("V "):
                started = True
            else:
                continue
        stats["stdout_lines"] += 1
        c = proto.classify(ln)
        if c is None:
            viol.append(("grammar", "grammar", "stdout line is not a valid IAuth message: %r (logs section #%d)" % (ln[:300], li)))
            continue
        if c["kind"] == "client":
            stats["client_lines"] += 1
            if c["cmd"] in "DRk":
                stats["verdict_lines"] += 1
            if c["id"] not in announced:
                viol.append(("unknown-id", "unknown-id", "message for an id the server never announced: %r" % ln))
                continue
            addr, port = announced[c["id"]]
            want_addr = proto.announced_value(addr)
            if want_addr == "ANY":
                stats["lines_about_clients_announced_with_no_address"] = stats.get("lines_about_clients_announced_with_no_address", 0) + 1
                if proto.addr_value(c["addr"]) is None:
                    viol.append(("address", "address-unreadable", "client %d was announced as %r; the message about it carries %r, which is no address text: %r" % (c["id"], addr, c["addr"], ln)))
            elif proto.addr_value(c["addr"]) != want_addr:
                viol.append(("address", "address", "client %d was announced as %s, message carries %s: %r" % (c["id"], addr, c["addr"], ln)))
            if c["addr"].startswith(":"):
                viol.append(("address-colon", "address-colon", "address text begins with ':': %r" % ln))
            if c["port"] != port:
                viol.append(("port", "port", "client %d was announced with port %d: %r" % (c["id"], port, ln)))
            if c["cmd"] in "Ck":
                stats["relayed_texts_checked"] = stats.get("relayed_texts_checked", 0) + 1
                seen = c["tail"][1:]
                if not any(t == seen or (len(ln) >= 1000 and t.startswith(seen)) for t in sent_texts[c["cmd"]]):
                    viol.append(("foreign-text", "foreign-text", "the text of %r... (%d bytes) is not (a cut of) any text a service sent" % (ln[:120], len(ln))))
        elif c["kind"] == "xquery":
            stats["xqueries"] += 1
            pt = proto.parse_tag(c["tag"])
            if pt is None or pt[0] not in announced:
                viol.append(("xquery-tag", "xquery-tag", "query with a tag that names no announced client: %r" % ln))
    if not started:
        viol.append(("no-banner", "no-banner", "no version banner on stdout"))
    wit = {"config": conf, "input": lines, "logs": li, "seed": seed}
    return {"viol": [(r_, s_, t_, wit) for (r_, s_, t_) in viol[:4]], "stats": stats, "inconc": [], "hash": vcommon.h([seed, li, lines[:50]]),
            "nontrivial": stats["client_lines"] > 0, "sample": [l[:200] for l in lines[:25]] + ["..."] + [l[:200] for l in out_lines[:25]]}


def _old_requests_worker(a):
    """Requests that have been pending for 10 s or more are listed by `? stats` (one S line each): a few clients of every kind are
    left pending, the daemon idles 10.6 s, then stats are asked for.  Every line must be a valid message."""
    b, seed = a["build"], a["seed"]
    rng = random.Random(seed)
    cfg = proto.Config([("login.svc", "login"), ("drone.svc", "dronecheck")], timeout=a.get("timeout"))
    s = proto.Session(b, cfg, leaks=a.get("leaks", False))
    try:
        for k, cid in enumerate([5, 70000, 2147483647, 9][:a["n"]]):
            s.do({"t": "announce", "id": cid, "ip": rng.choice(["192.0.2.1", "2001:db8::1", "0::1"]), "port": 1000 + k})
            if k % 2:
                s.do({"t": "password", "id": cid, "text": "+! acct pw"})
            if k % 3 == 0:
                s.do({"t": "host", "id": cid, "name": "h.example"})
        s.do({"t": "stats"})
        time.sleep(11.2)
        out = s.do({"t": "stats"})
        if a.get("then_withdraw"):
            # the old requests are withdrawn one by one, with statistics in between: the counts follow, the exit is clean
            for cid in list(s.open):
                s.do({"t": rng.choice(["disconnect", "registered"]), "id": cid})
                s.do({"t": "stats"})
        s.finish()
    except Exception:
        s.kill()
        raise
    r = prun.post(s, b, cfg, a.get("props", PROPS), seed, do_shrink=False)
    r["stats"]["old_request_lines"] = sum(1 for l in (out or []) if " sec old, " in l)
    return r


def run(chk, tier, scale=1.0):
    b = prun.build_daemon("c09-" + tier)
    # a quarter of the histories run on an unsanitized build: there a memory error does not abort the daemon but
    # shows as whatever it writes to the channel, which is what this property is about
    import build as buildmod
    bplain = buildmod.build_daemon(buildmod.fresh_dir("c09p-" + tier), "plain")
    # the 10.6 s idle run(s) go on in the background while everything else runs
    old_bg = vcommon.Background(_old_requests_worker, [dict(build=b, seed=chk.seed * 7 + k, n=4) for k in range(1 if tier == "quick" else 4)])
    n = int((320 if tier == "quick" else 6000) * scale)
    jobs = []
    allpat = list(range(256))
    for i in range(n):
        rng = random.Random("c09/%d/%d" % (chk.seed, i))
        rng.shuffle(allpat)
        jobs.append(dict(build=(bplain if i % 4 == 1 else b), seed=rng.randrange(1 << 30), logs=i % len(LOGS), reloads=(i % 4 == 0), patterns=list(allpat[:32])))
    for k, r in enumerate(vcommon.pmap(_worker, jobs, chunksize=2)):
        chk.add_case(r["hash"], r["nontrivial"])
        chk.merge_counts(r["stats"])
        if jobs[k]["build"] is bplain:
            chk.count("histories_on_unsanitized_build")
        for w in r["inconc"]:
            chk.inconc(w)
        for (rule, sig, text, wit) in r["viol"]:
            chk.violation(Violation("C09", rule, sig, text, wit))
        if k < 1 and r.get("sample"):
            chk.sample({"input_and_output_head": r["sample"]})
    # second part: lock-step histories (output attributed to input lines through the guarded sync command) in which an id that is
    # re-used - also while its previous holder is still pending - comes back with ANOTHER address and port: every client line must
    # carry the address / port of the id's current announcement, not of an earlier one
    from checks import pcommon
    hj = pcommon.hist_jobs(b, int((240 if tier == "quick" else 6000) * scale), chk.seed, PROPS, tag="c09h", vary_addr=0.85,
                           opts={"weights": {"reannounce": 8, "disconnect": 5, "registered": 3, "reply": 22, "timeout": 4}})
    hres = vcommon.pmap(prun.hist_worker, hj, chunksize=4)
    prun.fold(chk, "C09", old_bg.results())
    prun.fold(chk, "C09", hres)
    chk.count("lockstep_histories", len(hres))
    # the module interface no shipped module uses (set address / host name / user name, challenge, kill, accept, holds ...), driven
    # through the fixture module site_api and compared line for line with a model of the core (lib/sitemodel.py)
    import sitemodel
    sitemodel.fold_site(chk, "C09", tier, scale, 1031, ('C09',))
    chk.rule = ("batch histories (12-30 clients, ids up to 2^31-1) on the UNHOOKED channel: announced addresses cover the 256 zero/non-zero group patterns with 1-4 digit groups in "
                "compressed / uncompressed / upper-case / exploded spellings, IPv4, mapped and compatible forms, ports 0/1/65535/random; replies to predicted tags so that "
                "soft-done, challenges, +x and all three verdicts occur; events that make the daemon log (bad info requests, junk, reload of a broken / unparsable-typed / missing "
                "file via real SIGUSR1) under 5 logs sections (none, catch-all, per-facility, verbose_timestamp on/off); every stdout line from the banner on must match one "
                "production of the message grammar; client lines must carry an announced id, an address Python's ipaddress reads as the announced value, and the announced port; "
                "distinct = input stream; non-trivial = at least one client-directed line; plus lock-step random histories over 3-5 heavily re-used ids whose "
                "re-announcements (also of a still pending id) carry a different address / port: every client line must carry those of the current announcement")
    chk.require("old_request_lines", 3)
    chk.require("client_lines", 5000 * min(1.0, scale))
    chk.require("verdict_lines", 1000 * min(1.0, scale))
    chk.require("reloads", 50 * min(1.0, scale))
    chk.require("log_files_written", 50 * min(1.0, scale))
    chk.assumptions += ["grammar extracted from the iauth_send call sites; debug mode (-d) excluded by the statement",
                        "reloads are followed by a 100 ms pause instead of a marker (no hook is used); the oracle does not depend on the reload's timing"]


def replay(chk, rep):
    if rep["witness"].get("site"):
        import sitemodel
        return sitemodel.replay_site(chk, rep["witness"], "C09", ('C09',))
    if "events" in rep["witness"]:
        return prun.replay_witness(chk, rep, PROPS)
    b = prun.build_daemon("c09-replay")
    w = rep["witness"]
    out, r = daemon.run_batch(b, w["config"], ("\n".join(w["input"]) + "\n").encode("latin-1"), leaks=False)
    bad = 0
    for ln in out:
        if proto.classify(ln) is None and not ln.startswith("V "):
            print("BAD", ln)
            bad += 1
    print(r.describe())
    return 1 if bad else 0
