"""C11 - class rules: the first matching rule in name order decides (DESIGN.md C11)."""
import random

import classmodel
import monitor
import proto
import prun
import vcommon
from checks import pcommon
from vcommon import Violation

LEVEL = "exploration"
PROPS = ["C11"]

NAMES = ["B1", "a2", "Zz", "z0", "_x", "10", "9", "Alpha", "beta", "GAMMA", "r001", "R002", "r-3", "m.n", "Q#", "aa", "AB"]
ACCT_PATS = ["alice", "bob", "al*", "?ob", "*", "a*e", "alice:*", "nobody", "[ab]*", "al[!x]ce", "a\\*", "[a-c]lice", "[!a-z]ob", "alic[e", "*[e-t]"]
ADDR_PATS = ["10.0.0.0/8", "10.1.2.0/24", "10.1.2.3", "10.1.*", "10.1.2.*", "10.*", "2001:db8::/32", "2001:db8:1::/48", "2001:db8:1:*", "*", "0.0.0.0/0",
             "10.1.2.2/31", "10.1.2.0/23", "2001:db8::/33", "2001:db8:8000::/33", "2001:db8:1::5/128", "10.1.3.0/24", "11.0.0.0/8", "2001:db8:1:0:0:0:0:4/126",
             "10.1.2.3/32", "10.1.2.128/25", "2001:db8::/16", "2001:*", "10.1/16", "10.1.2/24", "10.1.2/23", "11.0/8",
             # a prefix of no bits at all written with a base address that is not zero; a full 128-bit prefix
             "10.0.0.0/0", "255.255.255.255/0", "2001:db8::/0", "2001:db8:1::5", "2001:db8:1:0:0:0:0:5/128",
             # networks whose bits are all zero (or all one) under a prefix that is not empty: an address criterion like any other
             "0::/96", "0::/8", "0:0:*", "0.0.0.0/8", "ffff:ffff::/32", "255.255.255.255/32"]
USER_PATS = ["~*", "joe", "j?e", "*", "~joe", "?*", "root", "[~j]*", "j[a-o]e", "\\~joe", "[!~]*"]
HOST_PATS = ["*.example.org", "host?.net", "*", "a.example.org", "*.net", "host??.net", "?*", "*.*", "10.*", "*:*", "2001:*", "*example.org", "?.example.org",
             "*/*", "[a-b].example.org*", "HOST*", "*[!.]"]
IPS = ["10.1.2.3", "10.1.3.3", "10.2.0.1", "11.0.0.1", "10.1.2.130", "10.1.2.2", "2001:db8::1", "2001:db8:1::5", "2001:db9::1", "2001:db8:8000::1", "2001:db8:1::6", "2001:dbf::9"]
IDENTS = ["joe", "~joe", "jae", None, "~x", "root"]
HOSTS = ["a.example.org", "host1.net", "host22.net", None, "b.example.org.", "HOST1.NET", ".example.org", "x/y.example.org", "c.example.org",
         # names of exactly 63 and 62 characters (the field holds 63): the end of the name is what `*.example.org` and `*.net` look at
         "a" * 51 + ".example.org", "b" * 50 + ".example.org", "h" * 59 + ".net"]
ACCOUNTS = ["alice:123", "bob", "albert", None, "alice", "Bob", "alice:1:2", "a*", "alic[e", "clice:9"]
SERVICES = [("login.svc", "login"), ("Drone.Net", "dronecheck"), ("combo.svc", "combined")]


def gen_rules(rng, bad=True):
    n = rng.randint(1, 6)
    names = []
    for nm in rng.sample(NAMES, len(NAMES)):
        if nm.lower() not in [x.lower() for x in names]:
            names.append(nm)
        if len(names) == n:
            break
    rules = []
    for nm in names:
        r = {"name": nm}
        if rng.random() < 0.7:
            r["class"] = rng.choice(["trusted", "clients", "c-" + nm.lower(), "Users", "x" * 70, "trusted", "clients", "Users", "top10%%", "%5d%%", "100%"])
        if rng.random() < 0.35:
            r["account"] = rng.choice(ACCT_PATS)
        if rng.random() < 0.45:
            r["address"] = rng.choice(ADDR_PATS)
        if rng.random() < 0.3:
            r["username"] = rng.choice(USER_PATS)
        if rng.random() < 0.3:
            r["hostname"] = rng.choice(HOST_PATS)
        if rng.random() < 0.3:
            r["xreply_ok"] = rng.choice(["login.svc", "drone.net", "DRONE.NET", "combo.svc", "other.svc"])
        if rng.random() < 0.3:
            # (a word that is no boolean keyword - the keywords are lower-case - does not switch the upgrade on)
            r["trust_username"] = rng.choice(["yes", "no", "1", "0", "true", "on", "True", "YES", "y", "maybe", "2", "enabled", "off"])
        rules.append(r)
    if bad and rng.random() < 0.12:
        # a rule whose address is no mask at all (a typing error), together with an account nobody has: it never places anybody, and
        # the rules around it - the one that follows it in name order in particular - are what they are without it
        nm = rng.choice([x for x in ("A00bad", "M5bad", "b0bad", "Zbad") if x.lower() not in [y["name"].lower() for y in rules]])
        rules.insert(rng.randrange(len(rules) + 1), {"name": nm, "account": "zzz-nomatch-*", "address": rng.choice(["10.0.0.0/33", "1.2.3", "zz", "1:2:3:zz/16", "10.0.0.0/", "300.1.1.1"]),
                                                     "class": "never"})
    if rng.random() < 0.2:
        # a plain setting between the rules: not a rule, must not be taken for one
        nm = rng.choice([x for x in ("A0", "note", "mm", "0") if x.lower() not in [y["name"].lower() for y in rules]])
        rules.insert(rng.randrange(len(rules) + 1), {"name": nm, "_plain": rng.choice(["trusted", "x", "10.0.0.0/8"])})
    return rules


def edit_rules(rng, rules):
    """An edit of the table as an administrator would make it before a SIGUSR1: mostly values changed in place."""
    import copy
    out = copy.deepcopy(rules)
    real = [r for r in out if "_plain" not in r and not r["name"].endswith("bad")]
    if not real:
        return gen_rules(rng)
    if rng.random() < 0.1:
        # every rule taken out: nobody gets a class any more
        return [r for r in out if "_plain" in r]
    for _ in range(rng.choice([1, 1, 2, 3])):
        r = rng.choice(real)
        how = rng.random()
        pools = {"account": ACCT_PATS, "address": ADDR_PATS, "username": USER_PATS, "hostname": HOST_PATS}
        present = [k for k in pools if k in r]
        if how < 0.5 and present:
            k = "address" if ("address" in present and rng.random() < 0.5) else rng.choice(present)
            r[k] = rng.choice([x for x in pools[k] if x != r[k]])
        elif how < 0.7:
            r["class"] = rng.choice(["moved", "c-" + r["name"].lower() + "2", "Users"])
        elif how < 0.85:
            k = rng.choice(sorted(pools))
            r[k] = rng.choice(pools[k])
        elif present:
            del r[rng.choice(present)]
        else:
            r["trust_username"] = rng.choice(["yes", "no"])
    return out


def _addr_value(ip):
    import ipaddress
    a = ipaddress.ip_address(ip)
    return ((0xffff << 32) | int(a)) if a.version == 4 else int(a)


def straddle(s, rng, rules, svcs, cid):
    """The rule that is looked at first decides by address alone; its address is edited in place (same number of rules) between
    clients that all come from one address: match, no match, match again under another spelling."""
    import copy
    import classmodel
    real = [r for r in classmodel.sorted_rules(rules) if "_plain" not in r]
    if not real:
        return rules, cid
    ip = rng.choice(IPS)
    v = _addr_value(ip)
    hit = [p for p in ADDR_PATS if classmodel.mask_match(v, *classmodel.parse_mask(p))]
    miss = [p for p in ADDR_PATS if p not in hit]
    seq = [rng.choice(hit), rng.choice(miss), rng.choice(hit), rng.choice(miss)][:rng.choice([2, 3, 4])]
    if rng.random() < 0.5:
        seq = seq[1:] + [rng.choice(hit)]
    name = real[0]["name"]
    for pat in seq:
        rules = copy.deepcopy(rules)
        for r in rules:
            if r["name"] == name:
                for k in ("account", "username", "hostname", "xreply_ok"):
                    r.pop(k, None)
                r["address"] = pat
                r["class"] = "straddle"
        s.do({"t": "reload", "services": [list(x) for x in svcs], "rules": rules})
        for _ in range(rng.choice([1, 1, 2])):
            probe(s, rng, cid, rules, ip=ip)
            cid += 1
            if s.dead:
                return rules, cid
    return rules, cid


def probe(s, rng, cid, rules, ip=None):
    """One probe client: attributes chosen to hit or just miss the criteria, then forced to a verdict."""
    ip0 = rng.choice(IPS)
    ip = ip or ip0
    ident = rng.choice(IDENTS)
    host = rng.choice(HOSTS)
    acct = rng.choice(ACCOUNTS)
    user = rng.choice(["claimed", "~claimed", "u", "abcdefghijkl"])
    s.do({"t": "announce", "id": cid, "ip": ip, "port": 5000 + cid % 1000})
    evs = [{"t": "host", "id": cid, "name": host} if host else {"t": "nohost", "id": cid},
           {"t": "ident", "id": cid, "name": ident},
           {"t": "nick", "id": cid, "name": "n%d" % cid},
           {"t": "userinfo", "id": cid, "user": user, "real": "Real Name"}]
    rng.shuffle(evs)
    if host and rng.random() < 0.15:
        # the server repeats the host name line with another name: the first one stands
        k_ = next(i_ for i_, e_ in enumerate(evs) if e_["t"] == "host")
        evs.insert(rng.randrange(k_ + 1, len(evs) + 1), {"t": "host", "id": cid, "name": rng.choice([h_ for h_ in HOSTS if h_ and h_ != host])})
    if rng.random() < 0.15:
        # re-query history: password first, the login-type services answer OK, a second password re-asks them,
        # the rest of the data arrives and the client is accepted by its timeout while the repeat query is in progress
        s.do({"t": "password", "id": cid, "text": "+x %s pw" % (acct or "someone").split(":")[0]})
        st = s.open.get(cid)
        for sv in sorted(st["awaiting"]) if st else []:
            if cid in s.open:
                s.do({"t": "reply", "svc": sv, "tag": s.open[cid]["tag"], "text": ("OK " + acct) if (acct and rng.random() < 0.5) else "OK"})
        if cid in s.open:
            s.do({"t": "password", "id": cid, "text": "+x %s pw2" % (acct or "someone").split(":")[0]})
        for ev in evs:
            if cid in s.open:
                s.do(ev)
        if cid in s.open and rng.random() < 0.8:
            s.do({"t": "timeout", "id": cid})
    elif rng.random() < 0.8:
        evs.insert(rng.randrange(len(evs) + 1), {"t": "password", "id": cid, "text": "+x %s pw" % (acct or "someone").split(":")[0]})
    for ev in evs:
        s.do(ev)
        if cid not in s.open:
            return
    # sometimes the request timeout fires while services still owe an answer: the client is then
    # accepted with queries in progress (an xreply_ok criterion naming such a service must not match)
    early_timeout = rng.random() < 0.25
    if early_timeout and cid in s.open:
        if rng.random() < 0.5:
            st = s.open.get(cid)
            if st and st["awaiting"]:
                sv = sorted(st["awaiting"])[0]
                s.do({"t": "reply", "svc": sv, "tag": st["tag"], "text": "OK " + acct if acct else "OK"})
        if cid in s.open:
            s.do({"t": "timeout", "id": cid})
        if cid not in s.open:
            return
    # answer the services: OK / OK acct / unlinked / junk
    for _ in range(4):
        st = s.open.get(cid)
        if not st or not st["awaiting"]:
            break
        sv = sorted(st["awaiting"])[0]
        k = rng.random()
        if k < 0.45 and acct:
            text = "OK " + acct
        elif k < 0.8:
            text = "OK"
        elif k < 0.9:
            s.do({"t": "unlinked", "svc": sv, "tag": st["tag"], "text": "gone"})
            continue
        else:
            text = "AGAIN try later"
        s.do({"t": "reply", "svc": sv, "tag": st["tag"], "text": text})
    if cid in s.open and rng.random() < 0.2:
        # a second password re-asks the login-type services; the client is then accepted by its timeout
        # while the repeat query is in progress (a service that already said OK still counts as OK)
        s.do({"t": "password", "id": cid, "text": "+x %s pw2" % (acct or "someone").split(":")[0]})
        if cid in s.open and rng.random() < 0.7:
            s.do({"t": "timeout", "id": cid})
    if cid in s.open:
        s.do({"t": "hurry", "id": cid})
    st = s.open.get(cid)
    if st and st["awaiting"]:
        for sv in sorted(st["awaiting"]):
            if cid in s.open:
                s.do({"t": "reply", "svc": sv, "tag": s.open[cid]["tag"], "text": "OK"})
    if cid in s.open:
        s.do({"t": "timeout", "id": cid})
    if cid in s.open:
        s.do({"t": "disconnect", "id": cid})


def _worker(a):
    b, seed, nprobes = a["build"], a["seed"], a["nprobes"]
    rng = random.Random(seed)
    rules = gen_rules(rng)
    svcs = rng.sample(SERVICES, rng.choice([1, 2, 3]))
    cfg = proto.Config(svcs, timeout=3600, rules=rules, use_class=True)
    s = proto.Session(b, cfg, leaks=True)
    try:
        # every second table is edited (mostly values in place) and re-read through a real SIGUSR1 once or twice while the
        # probing goes on: the rules in force at acceptance time are those of the file read last
        rr = random.Random(seed ^ 0x2545f491)
        reload_at = sorted(rr.sample(range(4, nprobes - 2), rr.choice([1, 2]))) if (seed % 2 and nprobes > 10) else []
        last_ip = None
        for k in range(nprobes):
            force_ip = None
            if k in reload_at:
                rules = edit_rules(rr, rules)
                s.do({"t": "reload", "services": [list(x) for x in svcs], "rules": rules})
                if rr.random() < 0.6:
                    force_ip = last_ip      # the first client after the reload comes from where the last one before it came from
            st_ = rng.getstate()
            last_ip = force_ip or rng.choice(IPS)
            rng.setstate(st_)
            probe(s, rng, 10 + k, rules, ip=force_ip)
            if s.dead:
                break
            if rr.random() < 0.12:
                # an operator looks at the statistics / the configuration report in between (reports change nothing)
                s.do({"t": "stats"} if rr.random() < 0.6 else {"t": "noise", "line": "-1 ? config"})
            if seed % 4 == 1 and k == nprobes // 2:
                rules, _ = straddle(s, rr, rules, svcs, 5000)
                if s.dead:
                    break
        s.do({"t": "stats"})
        s.finish()
    except Exception:
        s.kill()
        raise
    r = prun.post(s, b, cfg, PROPS, seed, do_shrink=True)
    # which rules decided (evidence)
    decided = {}
    m = monitor.Monitor(s.trace)
    r["stats"]["rules_in_table"] = len(rules)
    r["rules"] = rules
    return r


def run(chk, tier, scale=1.0):
    b = prun.build_daemon("c11-" + tier)
    n = int((96 if tier == "quick" else 1500) * scale)
    jobs = [dict(build=b, seed=random.Random("c11/%d/%d" % (chk.seed, i)).randrange(1 << 30), nprobes=40 if tier == "quick" else 60) for i in range(n)]
    res = vcommon.pmap(_worker, jobs)
    prun.fold(chk, "C11", res)
    # directed scripts around a reload of the SERVICE table while a client that holds an OK is still waiting (the xreply_ok criterion)
    for rs in vcommon.pmap(pcommon.script_worker, pcommon.reload_jobs(b, chk.seed, PROPS, int((144 if tier == "quick" else 3600) * scale), tag="rls11")):
        prun.fold(chk, "C11", rs)
    chk.count("rule_tables", len(res))
    chk.sample({"rule_table": res[0]["rules"]})
    chk.rule = ("random rule tables (1-6 rules; names whose ASCII order differs from case-insensitive order: B1 a2 Zz z0 _x 10 9 ...; every subset of account / address / username / "
                "hostname / xreply_ok criteria; CIDR v4/v6 masks at /8 /23 /24 /25 /31 /32 /16 /32 /33 /48 /126 /128 and wildcards; class value or rule name, 70-byte class; "
                "trust_username keywords) x 40-60 probe clients per table built from pools that hit and just miss each criterion (addresses one bit outside a prefix, idents with "
                "and without ~, hostnames, account stamps with :suffix, OK from a subset of services); the class on every D/R line and the U upgrade are compared with a Python "
                "reference evaluator (own glob matcher, integer prefix arithmetic); distinct = input stream; non-trivial = at least one verdict")
    chk.require("class_decisions", 2000 * min(1.0, scale))
    chk.require("trusted_usernames", 20 * min(1.0, scale))
    chk.assumptions += ["globs limited to literals, * and ?", "rule names do not differ only in case (those merge, see C16)"]


def replay(chk, rep):
    return prun.replay_witness(chk, rep, PROPS)
