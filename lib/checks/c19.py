"""C19 - the set container is an ordered map for every history (DESIGN.md C19)."""
import re

import build
import hrun
import vcommon
from vcommon import Violation

LEVEL = "exploration"


def _job(a):
    exe, argv, timeout = a
    r = hrun.run([exe] + argv, timeout=timeout, leaks=True)
    return (argv, r.rc, r.out[-6000:], r.err[-6000:], r.hang, r.crash_events(),
            [(s["kind"], s["func"], s["text"][:1500]) for s in r.sanitizer])


def run(chk, tier, scale=1.0):
    out = build.fresh_dir("c19-" + tier)
    exe = build.build_harness(out, "asan", "h_set", "h_set.c", ["src/set.c"], libs=())
    seed = chk.seed
    jobs = []
    maxk = 7
    for n in range(1, maxk + 1):
        jobs.append((exe, ["shapes", str(n)], 1800))
    jobs.append((exe, ["laws"], 60))
    if tier == "quick":
        nops = int(125000 * scale)
        plan = [("int", 10), ("int", 300), ("intx", 28), ("intx", 200), ("charp", 12), ("charp", 500),
                ("voidp", 16), ("voidp", 2000), ("int", 4), ("charp", 5)]
    else:
        nops = int(3000000 * scale)
        plan = [("int", 10), ("int", 100), ("int", 1000), ("int", 10000), ("intx", 14), ("intx", 28), ("intx", 200),
                ("intx", 3000), ("charp", 12), ("charp", 500), ("charp", 10000), ("voidp", 16), ("voidp", 2000),
                ("voidp", 10000), ("int", 37), ("charp", 64)]
    # deep trees: keys inserted in key order (one chain as deep as the set), then operations at its far end
    for cmp_ in ("int", "charp", "voidp"):
        for n_ in ([1500, 6000] if tier == "quick" else [1500, 6000, 20000, 60000]):
            for desc in (0, 1):
                jobs.append((exe, ["fill", cmp_, str(n_), str(desc)], 3600))
    # a chain as deep as the set, cleared without a lookup in between (a request table full of pending requests at end of input)
    for n_ in ([400000] if tier == "quick" else [400000, 1500000]):
        for desc in (0, 1):
            jobs.append((exe, ["deepclear", str(n_), str(desc)], 3600))
    for i, (cmp_, uni) in enumerate(plan):
        jobs.append((exe, ["random", cmp_, str(seed * 1000 + i), str(uni), str(nops)], 3600))
    res = vcommon.pmap(_job, jobs)
    shapes_total = 0
    for argv, rc, so, se, hang, crash, san in res:
        case = " ".join(argv)
        mr = re.search(r"STATS reinserted=(\d+) reinserted_into_empty=(\d+)", so)
        if mr:
            chk.count("recycled_nodes_reinserted", int(mr.group(1)))
            chk.count("recycled_nodes_reinserted_into_empty_set", int(mr.group(2)))
        m = re.search(r"ops=(\d+) audits=(\d+) cleanups=(\d+) replacements=(\d+) absent_probes=(\d+) ids=(\d+) violations=(\d+)", so)
        if m:
            for k, v in zip(["operations", "audits", "cleanup_calls", "replacements", "absent_key_probes", "elements_created"],
                            m.groups()):
                chk.count(k, int(v))
        ms = re.search(r"SHAPES nkeys=(\d+) shapes=(\d+) transitions=(\d+)", so)
        if ms:
            chk.count("tree_shapes_reached", int(ms.group(2)))
            chk.count("shape_transitions", int(ms.group(3)))
            chk.extra.setdefault("shapes_per_universe", {})[ms.group(1)] = int(ms.group(2))
            shapes_total += int(ms.group(2))
        ml = re.search(r"LAWS checks=(\d+)", so)
        if ml:
            chk.count("comparator_law_checks", int(ml.group(1)))
        chk.add_case(case, bool(m) and int(m.group(1)) > 0 or bool(ml))
        viols = re.findall(r"^VIOL (\S+) (.*)$", so, re.M)
        paths = re.findall(r"^PATH(.*)$", so, re.M)
        for k, (rule, detail) in enumerate(viols[:5]):
            part = argv[0] + (":" + argv[1] if argv[0] in ("random", "fill", "deepclear") else "")
            sig = "%s:%s" % (rule, part if argv[0] != "shapes" else "shapes")
            chk.violation(Violation("C19", rule, sig, "%s: %s%s" % (case, detail, ("\npath:" + paths[k]) if k < len(paths) else ""),
                                    {"argv": argv, "detail": detail, "path": paths[k] if k < len(paths) else None}))
        for kind, func in crash:
            txt = [t for (kk, ff, t) in san if kk == kind and ff == func]
            chk.violation(Violation("C19", "sanitizer", "%s|%s" % (kind, func),
                                    "%s: %s in %s\n%s" % (case, kind, func, txt[0] if txt else se[-800:]),
                                    {"argv": argv}))
        if hang:
            chk.inconc("harness run timed out: " + case)
        elif not viols and not crash and rc != 0:
            chk.inconc("harness exit %d without report: %s: %s" % (rc, case, se[-300:]))
        if not m and not hang and not crash:
            chk.inconc("no STATS line from " + case)
    chk.rule = ("complete breadth-first exploration of reachable splay-tree shapes for universes of 1..7 keys "
                "(every insert/replace/remove/find/lower/clear from every shape, present keys and gap probes), "
                "long random sequences per stock comparator (int, int with extreme values, case-insensitive strings, "
                "pointers), sets of 1500-60000 keys filled in key order (one chain as deep as the set) and then operated on at the far end, and comparator laws; a case is one harness run, non-trivial when it executed >=1 set operation; "
                "after every operation: result vs sorted-array model, structural audit, cleanup accounting; ASan+UBSan+LSan")
    chk.exhaustive = False
    chk.extra["exhaustive_subspace"] = "all tree shapes reachable over <=7 keys: %d shapes" % shapes_total
    chk.sample({"harness": "h_set shapes 3", "meaning": "BFS over shapes, ops ins/rem/remnd/find/lower/ins2/clear/clearnd for keys -1..5"})
    chk.sample({"harness": " ".join(jobs[-1][1])})
    chk.require("tree_shapes_reached", 3000)
    chk.require("operations", 100000)
    chk.assumptions += ["the harness replaces xmalloc (calloc wrapper) so that only src/set.c is linked",
                        "set_compare_ptr is exercised by the law checks only (its keys are element addresses)"]


def replay(chk, rep):
    out = build.fresh_dir("c19-replay")
    exe = build.build_harness(out, "asan", "h_set", "h_set.c", ["src/set.c"], libs=())
    r = hrun.run([exe] + rep["witness"]["argv"], timeout=3600)
    print(r.out[-3000:])
    print(r.err[-3000:])
    return 1 if (r.rc != 0) else 0
