"""C20 - module load and unload respect declared dependencies (DESIGN.md C20)."""
import itertools
import os
import random
import shutil
import subprocess
import tempfile

import build
import daemon
import hrun
import vcommon
from vcommon import Violation

LEVEL = "exploration"
NAMES = ["m0", "m1", "m2", "m3", "m4", "m5"]
LIBS = ["l0", "l1", "l2"]                       # constructor-less modules (nolib.so)
NOPOST = ["n0", "n1", "n2"]                     # modules with constructor and destructor but no post-init hook (nopost.so)
PREFIXED = ["auth", "auth_db", "auth_ldap", "a", "au", "AUTH_X"]   # names that are prefixes of one another (the tree's own style: iauth, iauth_xquery)
MANY = ["k%03d" % i for i in range(300)]        # for graphs with hundreds of modules


def edges_of(mask, n):
    """bit (i*n+j) set => edge i->j (i depends on j)."""
    return [(i, j) for i in range(n) for j in range(n) if (mask >> (i * n + j)) & 1]


def has_cycle(edges, n):
    adj = [[] for _ in range(n)]
    for a, b in edges:
        adj[a].append(b)
    state = [0] * n

    def dfs(u):
        state[u] = 1
        for v in adj[u]:
            if state[v] == 1 or (state[v] == 0 and dfs(v)):
                return True
        state[u] = 2
        return False
    return any(state[u] == 0 and dfs(u) for u in range(n))


def all_digraphs(n, selfloops=False):
    pairs = [(i, j) for i in range(n) for j in range(n) if selfloops or i != j]
    for bits in range(1 << len(pairs)):
        yield [pairs[k] for k in range(len(pairs)) if (bits >> k) & 1]


def reach(edges, starts):
    adj = {}
    for a, b in edges:
        adj.setdefault(a, []).append(b)
    seen = set()
    stack = list(starts)
    while stack:
        u = stack.pop()
        if u in seen:
            continue
        seen.add(u)
        stack.extend(adj.get(u, []))
    return seen


def multipath(edges, n):
    """True when some node is reachable from another along two different paths (diamond-like)."""
    adj = {}
    for a, b in edges:
        adj.setdefault(a, []).append(b)
    for s in range(n):
        cnt = {}

        def walk(u):
            for v in adj.get(u, []):
                cnt[v] = cnt.get(v, 0) + 1
                if cnt[v] > 64:
                    return
                walk(v)
        walk(s)
        if any(c > 1 for c in cnt.values()):
            return True
    return False


def graph_env(edges, order_rng=None, anti=(), names=None):
    NAMES = names or globals()["NAMES"]
    dep = {}
    for a, b in edges:
        if (a, b) in anti:
            continue
        dep.setdefault(a, []).append(b)
    for a, b in anti:
        # a depends on b, declared from b's side: b is a back end of a
        dep.setdefault(b, []).append("!" + NAMES[a])
    parts = []
    for a in sorted(dep):
        ds = list(dep[a])
        if order_rng:
            order_rng.shuffle(ds)
        parts.append("%s:%s" % (NAMES[a], ",".join(NAMES[b] if isinstance(b, int) else b for b in ds)))
    return ";".join(parts)


def judge(case, rc, stdout, log):
    """Pure oracle over the stub event log.  Returns list of (rule, text)."""
    kind, n, edges, listing, genv = case["kind"], case["n"], case["edges"], case["listing"], case["genv"]
    NAMES = case.get("names") or globals()["NAMES"]
    nolib = set(case.get("nolib") or [])
    nopost = set(case.get("nopost") or [])
    edges = [tuple(e) for e in edges]
    if kind == "dag2":
        kind = "dag"
    out = []
    valid_line = "appears valid" in stdout or bool(case.get("live"))
    events = [tuple(l.split(" ", 1)) for l in log.splitlines() if " " in l]
    if kind == "anti":
        # some dependencies are declared from the provider's side (module_antidepends): the documented promise is the unload order
        if rc != 0 or not valid_line:
            out.append(("anti-rejected", "acyclic graph %s listing %s: exit %s, valid-line %s; stdout: %s" % (genv, listing, rc, valid_line, stdout.strip()[-300:])))
            return out
        anti = [tuple(e) for e in case["anti"]]
        load = [(b, a) if (a, b) in anti else (a, b) for a, b in [tuple(e) for e in edges]]
        need = reach(load, listing)
        pos = {}
        for idx, (what, name) in enumerate(events):
            pos.setdefault((what, name), []).append(idx)
        for u in range(n):
            nm = NAMES[u]
            for what in ("ctor-begin", "ctor-end", "post-init", "dtor"):
                c = len(pos.get((what, nm), []))
                want = 1 if u in need else 0
                if c != want:
                    out.append(("count-" + what, "graph %s listing %s: module %s has %d %s events, want %d" % (genv, listing, nm, c, what, want)))
        if out:
            return out
        for a, b in [tuple(e) for e in edges]:
            if a not in need or b not in need:
                continue
            A, B = NAMES[a], NAMES[b]
            if not pos[("dtor", A)][0] < pos[("dtor", B)][0]:
                out.append(("order-dtor" + (":antidepends" if (a, b) in anti else ""), "graph %s listing %s: destructor of %s ran before that of %s, which depends on it%s" % (
                    genv, listing, B, A, " (declared by module_antidepends)" if (a, b) in anti else "")))
        return out
    if kind == "dag":
        if rc != 0 or not valid_line:
            out.append(("dag-rejected", "acyclic graph %s listing %s: exit %s, valid-line %s; stdout: %s" % (
                genv, listing, rc, valid_line, stdout.strip()[-300:])))
            return out
        need = reach(edges, listing)
        pos = {}
        for idx, (what, name) in enumerate(events):
            pos.setdefault((what, name), []).append(idx)
        for u in range(n):
            nm = NAMES[u]
            for what in ("ctor-begin", "ctor-end", "post-init", "dtor"):
                c = len(pos.get((what, nm), []))
                want = 1 if u in need else 0
                if u in nolib and what.startswith("ctor"):
                    want = 0
                if u in nopost and what == "post-init":
                    want = 0
                if c != want:
                    out.append(("count-" + what, "graph %s listing %s: module %s has %d %s events, want %d" % (
                        genv[:300], listing[:12], nm, c, what, want)))
        if any(w == "post-init-wrong-self" for w, _ in events):
            out.append(("postinit-self", "post-init received another module's descriptor"))
        if out:
            return out
        for a, b in edges:
            if a not in need:
                continue
            A, B = NAMES[a], NAMES[b]
            if b not in nolib and not pos[("ctor-end", B)][0] < pos[("ctor-end", A)][0]:
                out.append(("order-ctor", "graph %s listing %s: %s depends on %s but finished constructing first" % (genv, listing, A, B)))
            if a in nopost or b in nopost:
                pass
            elif not pos[("post-init", B)][0] < pos[("post-init", A)][0]:
                out.append(("order-postinit", "graph %s listing %s: post-init of %s ran before that of its dependency %s" % (genv, listing, A, B)))
            if not pos[("dtor", A)][0] < pos[("dtor", B)][0]:
                out.append(("order-dtor", "graph %s listing %s: destructor of dependency %s ran before that of %s" % (genv, listing, B, A)))
        # everything constructed before any post-init, every post-init before any destructor
        ctor_last = max([pos[("ctor-end", NAMES[u])][0] for u in need if u not in nolib] or [-1])
        # a dependency holds along a path through hook-less modules too: post-init of everything reachable comes first
        if nopost:
            adj = {}
            for a, b in edges:
                adj.setdefault(a, []).append(b)
            for a in need:
                if a in nopost:
                    continue
                for b in reach(edges, [a]) - {a}:
                    if b in nopost:
                        continue
                    if not pos[("post-init", NAMES[b])][0] < pos[("post-init", NAMES[a])][0]:
                        out.append(("order-postinit:through-hookless", "graph %s listing %s: post-init of %s ran before that of %s, which it depends on through modules without a post-init hook" % (
                            genv, listing, NAMES[a], NAMES[b])))
        pis = [pos[("post-init", NAMES[u])][0] for u in need if u not in nopost]
        if not pis:
            return out
        pi_first = min(pis)
        pi_last = max(pis)
        dt_first = min(pos[("dtor", NAMES[u])][0] for u in need)
        if not (ctor_last < pi_first and pi_last < dt_first):
            out.append(("phase-order", "graph %s listing %s: phases overlap: %s" % (genv, listing, events)))
    else:
        if rc == 0 or valid_line:
            out.append((kind + "-accepted", "%s graph %s listing %s: exit %s, valid-line %s" % (kind, genv, listing, rc, valid_line)))
        # a refused start-up may or may not take the loaded modules down again; if it does, the promises about destructors hold there
        # too: at most once per module, only for a module that was constructed, a dependent before what it depends on
        dt = [name for what, name in events if what == "dtor"]
        built = [name for what, name in events if what == "ctor-begin"]
        for nm in sorted(set(dt)):
            if dt.count(nm) > 1:
                out.append(("refused-dtor-twice", "%s graph %s listing %s (start-up refused): the destructor of %s ran %d times: %s" % (kind, genv, listing, nm, dt.count(nm), dt)))
            elif nm not in built:
                out.append(("refused-dtor-unbuilt", "%s graph %s listing %s (start-up refused): the destructor of %s ran although it was never constructed" % (kind, genv, listing, nm)))
        if not out and kind == "missing":
            for a, b in edges:
                A, B = NAMES[a], NAMES[b]
                if A in dt and B in dt and not dt.index(A) < dt.index(B):
                    out.append(("refused-order-dtor", "%s graph %s listing %s (start-up refused): destructor of dependency %s ran before that of %s: %s" % (kind, genv, listing, B, A, dt)))
    return out


def _worker(a):
    exe, moddir, cases = a
    scratch = tempfile.mkdtemp(prefix="c20-", dir=daemon.SCRATCH_ROOT)
    res = []
    try:
        conf = os.path.join(scratch, "g.conf")
        log = os.path.join(scratch, "log")
        for case in cases:
            with open(conf, "w") as f:
                nm_ = case.get("names") or NAMES
                f.write('core {\n library_path ( "%s" );\n modules ( %s );\n};\n' % (
                    moddir, ", ".join(nm_[u] if isinstance(u, int) else u for u in case["listing"])))
            if os.path.exists(log):
                os.unlink(log)
            env = hrun.san_env(leaks=False, extra=dict({"VERIF_MODGRAPH": case["genv"], "VERIF_MODLOG": log}, **({"VERIF_MODSLOW": case["slow"]} if case.get("slow") else {})))
            if case.get("live"):
                rc, so, se, hang = _live_run(exe, conf, env, scratch, moddir, case)
                lg = open(log).read() if os.path.exists(log) else ""
                v = [("hang", "live run did not finish for graph %s listing %s" % (case["genv"], case["listing"]))] if hang else judge(case, rc, so, lg)
                san = daemon.parse_sanitizer(se)
                res.append((case, rc, v, [(s["kind"], s["func"]) for s in san], lg if v else "", len(lg.splitlines())))
                continue
            try:
                p = subprocess.run([exe, "-k", "-n", "-f", conf], stdin=subprocess.DEVNULL, stdout=subprocess.PIPE,
                                   stderr=subprocess.PIPE, env=env, cwd=scratch, timeout=60)
                rc, so, se = p.returncode, p.stdout.decode("latin-1"), p.stderr.decode("latin-1")
                hang = False
            except subprocess.TimeoutExpired:
                rc, so, se, hang = None, "", "", True
            lg = open(log).read() if os.path.exists(log) else ""
            if hang:
                v = [("hang", "start-up did not finish for graph %s listing %s" % (case["genv"], case["listing"]))]
            else:
                v = judge(case, rc, so, lg)
            san = daemon.parse_sanitizer(se)
            res.append((case, rc, v, [(s["kind"], s["func"]) for s in san], lg if v else "", len(lg.splitlines())))
    finally:
        shutil.rmtree(scratch, ignore_errors=True)
    return res


def _live_run(exe, conf, env, scratch, moddir, case):
    """The daemon is started for real (no -k), reloaded once or twice by SIGUSR1 with another `modules` list - names added that
    are not loaded (existing or not), names dropped, another order - and then told to stop (SIGHUP): the modules of the start-up
    list are still unloaded once each, in dependency order.  The guarded reload marker tells when a reload is over."""
    import select
    import signal
    import time
    env = dict(env, IAUTHD_VERIF_MARK="1")
    p = subprocess.Popen([exe, "-n", "-f", conf], stdin=subprocess.PIPE, stdout=subprocess.PIPE, stderr=subprocess.PIPE, env=env, cwd=scratch)
    out = b""
    hang = False
    try:
        t_end = time.time() + 30
        while time.time() < t_end:       # signal handlers are installed once the event loop is about to run
            try:
                if open("/proc/%d/syscall" % p.pid).read().split()[0] in ("232", "281", "441"):
                    break
            except (OSError, IndexError):
                time.sleep(1.5)      # the kernel does not show the system call: give start-up its time instead
                break
            if p.poll() is not None:
                break
            time.sleep(0.005)
        for ri, lst2 in enumerate(case["relists"]):
            if p.poll() is not None:
                break
            with open(conf, "w") as f:
                f.write('core {\n library_path ( "%s" );\n modules ( %s );\n};\n' % (moddir, ", ".join(lst2)))
            p.send_signal(signal.SIGUSR1)
            t_end = time.time() + 30
            while out.count(b"#verif reload") < ri + 1:
                if time.time() > t_end or p.poll() is not None:
                    break
                r_, _, _ = select.select([p.stdout], [], [], 0.2)
                if r_:
                    c = os.read(p.stdout.fileno(), 65536)
                    if not c:
                        break
                    out += c
        if p.poll() is None:
            p.send_signal(signal.SIGHUP)
        try:
            so, se = p.communicate(timeout=30)
        except subprocess.TimeoutExpired:
            p.kill()
            so, se = p.communicate()
            hang = True
        return p.returncode, (out + so).decode("latin-1"), se.decode("latin-1"), hang
    finally:
        if p.poll() is None:
            p.kill()


def listings_for(edges, n, rng, how_many):
    nodes = list(range(n))
    indeg = {u: 0 for u in nodes}
    for a, b in edges:
        indeg[b] += 1
    roots = [u for u in nodes if indeg[u] == 0] or nodes
    cand = [tuple(roots), tuple(reversed(roots)), tuple(nodes), tuple(reversed(nodes))]
    while len(cand) < how_many + 4:
        k = rng.randint(1, n)
        cand.append(tuple(rng.sample(nodes, k)))
    seen = []
    for c in cand:
        if c not in seen:
            seen.append(c)
    return seen[:how_many]


def gen_cases(tier, seed, scale):
    rng = random.Random(seed)
    cases = []
    nmax_full = 4 if tier == "quick" else 5
    per = 5 if tier == "quick" else 4
    for n in range(1, nmax_full + 1):
        for edges in all_digraphs(n):
            if has_cycle(edges, n):
                continue
            for lst in listings_for(edges, n, rng, per if n >= 3 else 8):
                cases.append({"kind": "dag", "n": n, "edges": edges, "listing": list(lst), "genv": graph_env(edges, rng)})
    # sampled larger DAGs
    for n, cnt in ((5, 1500 if tier == "quick" else 0), (6, 800 if tier == "quick" else 20000)):
        for _ in range(int(cnt * scale)):
            perm = list(range(n))
            rng.shuffle(perm)
            dens = rng.choice([0.15, 0.3, 0.5, 0.8])
            edges = [(perm[i], perm[j]) for i in range(n) for j in range(i + 1, n) if rng.random() < dens]
            lst = rng.choice(listings_for(edges, n, rng, 6))
            cases.append({"kind": "dag", "n": n, "edges": edges, "listing": list(lst), "genv": graph_env(edges, rng)})
            if rng.random() < 0.12:
                # unloading takes its time: one or two destructors need 12-40 ms each (the order still has to hold)
                cases[-1]["slow"] = ";".join("%s:%d" % (NAMES[u], rng.choice([12, 20, 40])) for u in rng.sample(range(n), rng.choice([1, 2])))
    # modules whose names are prefixes of one another: all small DAGs over six such names, random listings
    for _ in range(int((300 if tier == "quick" else 4000) * scale)):
        n = rng.randint(3, 6)
        names = rng.sample(PREFIXED, n)
        perm = list(range(n))
        rng.shuffle(perm)
        edges = [(perm[i], perm[j]) for i in range(n) for j in range(i + 1, n) if rng.random() < 0.45]
        lst = list(rng.choice(listings_for(edges, n, rng, 6)))
        cases.append({"kind": "dag2", "n": n, "edges": edges, "listing": lst, "names": names, "genv": graph_env(edges, rng, names=names), "prefixed": True})
    # live runs: started for real, reloaded with another modules list, stopped by SIGHUP
    for _ in range(int((40 if tier == "quick" else 600) * scale) or 1):
        n = rng.randint(2, 5)
        perm = list(range(n))
        rng.shuffle(perm)
        edges = [(perm[i], perm[j]) for i in range(n) for j in range(i + 1, n) if rng.random() < 0.4]
        lst = list(rng.choice(listings_for(edges, n, rng, 6)))
        relists = []
        for _r in range(rng.choice([1, 1, 2])):
            l2 = [NAMES[u] for u in lst]
            how = rng.random()
            if how < 0.4:
                l2.insert(rng.randint(0, len(l2)), rng.choice(["aaa_nosuchmod", "zzz_nosuchmod", NAMES[5], "m0m"]))
            elif how < 0.6 and len(l2) > 1:
                l2.pop(rng.randrange(len(l2)))
            elif how < 0.8:
                rng.shuffle(l2)
            else:
                l2 = [NAMES[u] for u in range(n)] + ["nosuchmod"]
            relists.append(l2)
        cases.append({"kind": "dag", "n": n, "edges": edges, "listing": lst, "genv": graph_env(edges, rng), "live": True, "relists": relists})
    # dependencies declared from the provider's side (module_antidepends, README): DAGs in which a random non-empty subset of the
    # edges is declared that way; every module is listed so that what gets loaded does not depend on who pulls in whom
    for _ in range(int((400 if tier == "quick" else 6000) * scale)):
        n = rng.randint(2, 5)
        perm = list(range(n))
        rng.shuffle(perm)
        dens = rng.choice([0.3, 0.5, 0.8])
        edges = [(perm[i], perm[j]) for i in range(n) for j in range(i + 1, n) if rng.random() < dens]
        if not edges:
            continue
        anti = [e for e in edges if rng.random() < 0.5] or [rng.choice(edges)]
        lst = list(range(n))
        rng.shuffle(lst)
        if rng.random() < 0.4:
            # only some are listed: a back end may then be what pulls its front end in
            lst = lst[:rng.randint(1, n - 1)]
        cases.append({"kind": "anti", "n": n, "edges": edges, "anti": anti, "listing": lst, "genv": graph_env(edges, rng, anti=anti)})
    # modules without a constructor (it is optional): leaves that others depend on, pulled in by module_depends or listed themselves
    for _ in range(int((300 if tier == "quick" else 4000) * scale)):
        nm = rng.randint(1, 4)
        nl = rng.randint(1, 3)
        names = NAMES[:nm] + LIBS[:nl]
        n = nm + nl
        perm = list(range(nm))
        rng.shuffle(perm)
        edges = [(perm[i], perm[j]) for i in range(nm) for j in range(i + 1, nm) if rng.random() < 0.4]
        edges += [(u, nm + l) for u in range(nm) for l in range(nl) if rng.random() < 0.5]
        lst = rng.sample(range(n), rng.randint(1, n))
        if not any(u < nm for u in lst):
            lst.append(rng.randrange(nm))
        cases.append({"kind": "dag2", "n": n, "edges": edges, "listing": lst, "names": names, "nolib": list(range(nm, n)),
                      "genv": graph_env(edges, rng, names=names)})
    # modules with dependencies but without a post-init hook, in the middle of chains; cycles that pass through them
    for _ in range(int((300 if tier == "quick" else 4000) * scale)):
        nm = rng.randint(1, 4)
        nn = rng.randint(1, 3)
        names = NAMES[:nm] + NOPOST[:nn]
        n = nm + nn
        perm = list(range(n))
        rng.shuffle(perm)
        cyc = rng.random() < 0.25
        edges = [(perm[i], perm[j]) for i in range(n) for j in range(i + 1, n) if rng.random() < 0.45]
        if cyc:
            # close a cycle through at least one hook-less module
            h = rng.choice(range(nm, n))
            o = rng.choice([u for u in range(n) if u != h])
            edges = [e for e in edges if e not in ((h, o), (o, h))] + [(h, o), (o, h)]
        lst = list(range(n))
        rng.shuffle(lst)
        cases.append({"kind": "cycle" if cyc else "dag2", "n": n, "edges": edges, "listing": lst, "names": names, "nopost": list(range(nm, n)),
                      "genv": graph_env(edges, rng, names=names)})
    # hundreds of modules: sparse random DAGs over 260-300 modules, all listed in random order (every module is a walk root at some point)
    for _ in range(2 if tier == "quick" else 12):
        n = rng.choice([260, 300])
        # acyclic by construction: orient every edge along one random permutation
        perm = list(range(n))
        rng.shuffle(perm)
        rank = {u: i for i, u in enumerate(perm)}
        edges = []
        for u in range(n):
            for v in rng.sample(range(n), 2):
                if v != u and rng.random() < 0.6:
                    a_, b_ = (u, v) if rank[u] < rank[v] else (v, u)
                    if (a_, b_) not in edges:
                        edges.append((a_, b_))
        if _ % 2 == 0:
            # every module is the root of its own post-init walk (dependencies only point to names that sort earlier), so the
            # walk counter reaches the hundreds; the modules around the 128th / 256th root are depended upon by later ones
            edges = []
            for t in list(range(120, 136)) + list(range(246, min(266, n - 3))):
                for u in rng.sample(range(t + 1, n), 2):
                    edges.append((u, t))
        lst = list(range(n))
        rng.shuffle(lst)
        cases.append({"kind": "dag2", "n": n, "edges": edges, "listing": lst, "names": MANY[:n], "genv": graph_env(edges, rng, names=MANY[:n])})
    # cyclic graphs: all on <=3 nodes (with and without self loops), sampled on 4..6; all nodes listed
    for n in range(1, 4):
        for edges in all_digraphs(n, selfloops=True):
            if not has_cycle(edges, n) and not any(a == b for a, b in edges):
                continue
            # the cycle must be reachable from the listing: list every node, two orders
            for lst in (list(range(n)), list(reversed(range(n)))):
                cases.append({"kind": "cycle", "n": n, "edges": edges, "listing": lst, "genv": graph_env(edges, rng)})
    for n in (4, 5, 6):
        got = 0
        want = int((150 if tier == "quick" else 2000) * scale)
        while got < want:
            dens = rng.choice([0.1, 0.2, 0.4])
            edges = [(i, j) for i in range(n) for j in range(n) if i != j and rng.random() < dens]
            if not has_cycle(edges, n):
                continue
            lst = list(range(n))
            rng.shuffle(lst)
            cases.append({"kind": "cycle", "n": n, "edges": edges, "listing": lst, "genv": graph_env(edges, rng)})
            got += 1
    # unloadable modules: a listed or depended-upon module that does not exist
    for _ in range(int((120 if tier == "quick" else 1500) * scale)):
        n = rng.randint(1, 5)
        perm = list(range(n))
        rng.shuffle(perm)
        edges = [(perm[i], perm[j]) for i in range(n) for j in range(i + 1, n) if rng.random() < 0.3]
        lst = [NAMES[u] for u in rng.sample(range(n), rng.randint(1, n))]
        genv = graph_env(edges, rng)
        if rng.random() < 0.5:
            lst.insert(rng.randint(0, len(lst)), "nosuchmod")
        else:
            victim = NAMES[rng.choice(sorted(reach(edges, [NAMES.index(x) for x in lst])))]
            genv = (genv + ";" if genv else "") + "%s:nosuchmod" % victim
            # a second stanza for the same module is ignored by the stub unless it is the first: put it first
            genv = "%s:nosuchmod;" % victim + ";".join(p for p in genv.split(";") if not p.startswith(victim + ":") and p)
        cases.append({"kind": "missing", "n": n, "edges": edges, "listing": lst, "genv": genv})
    return cases


def prepare(tag):
    out = build.fresh_dir(tag)
    b = build.build_daemon(out, "asan")
    stub = build.build_shared(out, "asan", "modstub", "modstub.c")
    moddir = os.path.join(out, "stubs")
    os.makedirs(moddir)
    for nm in NAMES + MANY + PREFIXED:
        shutil.copy(stub, os.path.join(moddir, nm + ".so"))
    nolib = build.build_shared(out, "asan", "nolib", "nolib.c")
    for nm in LIBS:
        shutil.copy(nolib, os.path.join(moddir, nm + ".so"))
    nopost = build.build_shared(out, "asan", "nopost", "nopost.c")
    for nm in NOPOST:
        shutil.copy(nopost, os.path.join(moddir, nm + ".so"))
    return b["exe"], moddir


def run(chk, tier, scale=1.0):
    exe, moddir = prepare("c20-" + tier)
    cases = gen_cases(tier, chk.seed, scale)
    chunk = 40
    work = [(exe, moddir, cases[i:i + chunk]) for i in range(0, len(cases), chunk)]
    results = vcommon.pmap(_worker, work)
    shapes = set()
    for res in results:
        for case, rc, viols, san, lg, nev in res:
            key = (case["kind"], case["n"], tuple(sorted(map(tuple, case["edges"]))), tuple(case["listing"]))
            mp = case["kind"] == "dag" and multipath(case["edges"], case["n"])
            if case.get("nolib"):
                chk.count("runs_with_constructorless_modules")
            if case.get("nopost"):
                chk.count("runs_with_hookless_modules")
            if case.get("slow"):
                chk.count("runs_with_slow_destructors")
            if case.get("live"):
                chk.count("live_runs_with_reloaded_module_list")
            if case.get("prefixed"):
                chk.count("runs_with_names_that_are_prefixes_of_one_another")
            if case["n"] >= 200:
                chk.count("runs_with_hundreds_of_modules")
            chk.add_case(vcommon.h(key + (tuple(map(tuple, case.get("anti", ()))),)), nev > 0 or case["kind"] not in ("dag", "anti", "dag2"))
            chk.count("runs_" + case["kind"])
            chk.count("stub_events_judged", nev)
            if mp:
                chk.count("dag_runs_with_node_reachable_along_two_paths")
            shapes.add((case["kind"], case["n"], tuple(sorted(map(tuple, case["edges"])))))
            for rule, text in viols[:3]:
                sig = rule + (":multipath" if mp else "")
                chk.violation(Violation("C20", rule, sig, text + ("\nevent log:\n" + lg if lg else ""),
                                        {"case": case, "exit": rc}))
            if san and not viols and case["kind"] == "dag":
                chk.count("sanitizer_reports_on_accepted_graphs")
    chk.count("distinct_graphs", len(shapes))
    chk.rule = ("the real iauthd-c -k is run on every labelled DAG over <=%d stub modules with several listing subsets/orders, "
                "sampled DAGs on 5-6 modules, all cyclic digraphs (incl. self-loops) on <=3 modules and sampled ones on 4-6, "
                "and graphs with an unloadable module; distinct = (kind, graph, listing); non-trivial = at least one stub event "
                "was logged (DAG) or the run had to be refused (cycle/missing)" % (4 if tier == "quick" else 5))
    chk.exhaustive = False
    chk.extra["exhaustive_subspace"] = "all labelled DAGs on <=%d modules" % (4 if tier == "quick" else 5)
    for c in cases[:1] + cases[len(cases) // 2:len(cases) // 2 + 1] + cases[-1:]:
        chk.sample({"kind": c["kind"], "VERIF_MODGRAPH": c["genv"], "modules_listed": c["listing"]})
    chk.require("runs_dag", 500)
    chk.require("runs_cycle", 50)
    chk.require("stub_events_judged", 5000)


def replay(chk, rep):
    exe, moddir = prepare("c20-replay")
    case = rep["witness"]["case"]
    res = _worker((exe, moddir, [case]))
    for case, rc, viols, san, lg, nev in res:
        print("exit", rc, "violations", viols)
        print(lg)
        return 1 if viols else 0
