"""C06 - queries are timely and carry the client's own data (DESIGN.md C06)."""
import random

import orders
import proto
import prun
import vcommon
from checks import pcommon
from checks.c02 import order_cases

LEVEL = "exploration"
PROPS = ["C06"]

IPS = ["1.2.3.4", "200.100.50.25", "2001:db8::17", "0::1", "fe80::1:2:3:4", "1:2:3:4:5:6:7:8"]


def _many_worker(a):
    """Many configured services (around the width of the per-client service masks): every one of them must be asked."""
    import proto
    b, n, seed = a["build"], a["n"], a["seed"]
    rng = random.Random(seed)
    protos = ["login", "dronecheck", "login-ipr", "combined"]
    svcs = [("s%02d.example.net" % k, protos[(k + seed) % 4] if a["mixed"] else "login") for k in range(n)]
    rng.shuffle(svcs)
    cfg = proto.Config(svcs, timeout=3600)
    s = proto.Session(b, cfg, leaks=True)
    try:
        for cid in (5, 6, 7):
            evs = [{"t": "announce", "id": cid, "ip": "192.0.2.%d" % cid, "port": 1000 + cid},
                   {"t": "host", "id": cid, "name": "h%d.example" % cid}, {"t": "ident", "id": cid, "name": "id%d" % cid},
                   {"t": "nick", "id": cid, "name": "nick%d" % cid}, {"t": "userinfo", "id": cid, "user": "u%d" % cid, "real": "Real %d" % cid},
                   {"t": "password", "id": cid, "text": "+x acct%d pw%d" % (cid, cid)}]
            tail = evs[1:]
            rng.shuffle(tail)
            for ev in evs[:1] + tail:
                s.do(ev)
            # answers in random order; the last one releases the client
            st = s.open.get(cid)
            while st and st["awaiting"] and cid in s.open and not s.dead:
                sv = rng.choice(sorted(st["awaiting"]))
                s.do({"t": "reply", "svc": sv, "tag": st["tag"], "text": "OK"})
                st = s.open.get(cid)
            if cid in s.open:
                s.do({"t": "hurry", "id": cid})
        s.do({"t": "stats"})
        s.finish()
    except Exception:
        s.kill()
        raise
    r = prun.post(s, b, cfg, a.get("props", PROPS), seed, do_shrink=False, want_sample=False)
    r["stats"]["many_service_tables"] = 1
    r["stats"]["services_in_many_service_tables"] = n
    return r


def report_scripts(rng, n):
    """Directed: a client is asked by a service and waits; a reload adds a service whose name sorts BEFORE it (or behind it); an
    operator asks for the configuration / statistics report; the client's remaining data arrives.  The service that was asked is
    not asked again, the newcomer is asked once its needs are met - whatever the report did to the table's order."""
    out = []
    for k in range(n):
        old, new = [("m.svc", "a.svc"), ("zeta.example.org", "Alpha.Net"), ("login.svc", "drone.svc"), ("b.svc", "c.svc")][k % 4]
        lp = ["login", "login-ipr", "combined"][(k // 4) % 3]
        cfg = proto.Config([(old, lp)], timeout=3600)
        cid = [5, 0, 70000][k % 3]
        newp = ["dronecheck", "login", "login-ipr"][(k // 2) % 3]
        ev = [{"t": "announce", "id": cid, "ip": "192.0.2.5", "port": 1005}, {"t": "host", "id": cid, "name": "h5.example"}, {"t": "ident", "id": cid, "name": "id5"}]
        if lp == "combined":
            ev += [{"t": "nick", "id": cid, "name": "n5"}, {"t": "userinfo", "id": cid, "user": "u5", "real": "R"}]
        ev += [{"t": "password", "id": cid, "text": "+x acct5 pw"}, {"t": "reload", "services": [[old, lp], [new, newp]]}]
        ev += [rng.choice([{"t": "noise", "line": "-1 ? config"}, {"t": "stats"}, {"t": "noise", "line": "-1 ? stats2"}]) for _ in range(rng.choice([1, 2, 3]))]
        if lp != "combined":
            ev += [{"t": "nick", "id": cid, "name": "n5"}, {"t": "userinfo", "id": cid, "user": "u5", "real": "R"}]
        ev += [{"t": "noise", "line": "-1 ? config"}, {"t": "hurry", "id": cid}, {"t": "reply", "svc": old, "tag": "%x_1" % cid, "text": "OK acct5"},
               {"t": "reply", "svc": new, "tag": "%x_1" % cid, "text": "OK"}, {"t": "timeout", "id": cid}, {"t": "stats"}]
        out.append((cfg, ev))
    return out


def run(chk, tier, scale=1.0):
    b = prun.build_daemon("c06-" + tier)
    rng = random.Random("c06x/%d" % chk.seed)
    cases = []
    for c in order_cases(tier, chk.seed, scale * (0.6 if tier == "quick" else 1.0), "c06"):
        ti, order, pol, tp, hp, pw, sd, extra = c
        extra = dict(extra)
        extra["boundary"] = 0.7
        extra["ip"] = rng.choice(IPS)
        if rng.random() < 0.3:
            # malformed passwords of every kind first, then possibly a good one
            extra["second_pw"] = pw
            pw = rng.choice(["plainpassword", "acct pass", "x acct pass", "+x", "+x acctonly", "+!", "-", "x+ a b", "+x  "])
        cases.append((ti, order, pol, tp, hp, pw, sd, extra))
    per = 40
    work = [dict(build=b, cases=cases[i:i + per], props=PROPS, want_sample=(i == 0)) for i in range(0, len(cases), per)]
    for rs in vcommon.pmap(prun.orders_worker, work):
        prun.fold(chk, "C06", rs)
    chk.count("enumerated_order_histories", len(cases))
    n = int((600 if tier == "quick" else 12000) * scale)
    opts = {"weights": {"dupdata": 8, "password": 16, "reply": 22, "hurry": 5, "stray": 2}, "boundary": 0.7, "wellformed_pw": 0.6}
    jobs = pcommon.hist_jobs(b, n, chk.seed, PROPS, opts=opts, tag="c06", want_class=False)
    prun.fold(chk, "C06", vcommon.pmap(prun.hist_worker, jobs, chunksize=4))
    # directed scripts around a reload that removes (and replaces) a service in the middle of a MORE dialogue
    for rs in vcommon.pmap(pcommon.script_worker, pcommon.reload_jobs(b, chk.seed, PROPS, int((160 if tier == "quick" else 4000) * scale), tag="rls6")):
        prun.fold(chk, "C06", rs)
    rrng = random.Random("c06rep/%d" % chk.seed)
    rscripts = [(c.to_json(), ev) for c, ev in report_scripts(rrng, int((36 if tier == "quick" else 720) * scale) or 4)]
    for rs in vcommon.pmap(pcommon.script_worker, [dict(build=b, scripts=rscripts[i:i + 6], props=PROPS) for i in range(0, len(rscripts), 6)]):
        prun.fold(chk, "C06", rs)
    # service tables around the width of the per-client masks (31, 32 services; and beyond): half of them on an unsanitized build,
    # where a shift past the mask width shows as the query that is never sent instead of aborting the daemon
    import build as buildmod
    bplain = buildmod.build_daemon(buildmod.fresh_dir("c06p-" + tier), "plain")
    mjobs = [dict(build=(bplain if k % 2 else b), n=n, seed=chk.seed * 100 + k, mixed=(k % 4 < 2))
             for k, n in enumerate([8, 16, 31, 32, 31, 32, 33, 40] * (1 if tier == "quick" else 6))]
    prun.fold(chk, "C06", vcommon.pmap(_many_worker, mjobs))
    # bursts of complete clients, half of them over ONE socket that is the daemon's standard input and output with a reader who
    # falls behind: when the daemon has come to rest, the drone check has been asked about every one of them
    pcommon.fold_bursts(chk, "C06", tier, scale, b, 983)
    chk.require("burst_queries_seen", 300 * min(1.0, scale))
    chk.rule = ("all 120 arrival orders x service tables (each of login, login-ipr, dronecheck, combined alone and mixed) x reply policies x hurry-up / timeout positions, "
                "fields at limit-1 / limit / limit+1 bytes (nick 30, user 10 with and without ~, ident incl. empty, host 63, real name 50), IPv4 and IPv6 clients, malformed "
                "passwords of every kind followed by well-formed ones, second N/u/n/U lines, challenge responses; rules per X line: service configured, verb fits its protocol, "
                "prerequisites known (or H), not repeated except by a new well-formed password (never for dronecheck), text = protocol format filled with this client's fields; "
                "and at the end of every step: no configured service whose prerequisites are known is still unqueried; non-trivial = at least one verdict")
    chk.require("queries", 8000 * min(1.0, scale))
    chk.require("malformed_passwords", 500 * min(1.0, scale))
    chk.require("challenge_responses", 50 * min(1.0, scale))
    chk.assumptions += ["user info is rendered with the two parameters the daemon's parser reads: '<id> U <user> :<realname>'",
                        "the address inside a query is compared by value with the announced address"]


def replay(chk, rep):
    if rep["witness"].get("burst"):
        return pcommon.replay_burst(chk, rep["witness"], "C06", "c06-replay")
    return prun.replay_witness(chk, rep, PROPS)
