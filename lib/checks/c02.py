"""C02 - no premature acceptance (DESIGN.md C02)."""
import random

import orders
import proto
import prun
import vcommon
from checks import pcommon

LEVEL = "exploration"
# libevent times its timers by the coarse monotonic clock, which may read up to a tick (4-10 ms) behind: an acceptance counts as
# premature only when it is more than 50 ms early (the changes this oracle is for make it early by the gap between two clients: 80 ms+)
TIMER_SLACK = 0.05
PROPS = ["C02"]


def order_cases(tier, seed, scale, tag):
    """Enumerated cases: all 120 arrival orders x service tables x reply policies x timeout / hurry positions."""
    rng = random.Random("%s/%d" % (tag, seed))
    cases = []
    ords = orders.all_orders()
    for oi, order in enumerate(ords):
        for ti in range(len(orders.TABLES)):
            pols = orders.POLICIES if tier != "quick" else rng.sample(orders.POLICIES, 3)
            for pol in pols:
                if tier == "quick":
                    tposs = rng.sample([None, 0, 1, 2, 3, 4, 5], 2)
                    hposs = [rng.choice([None, None, 0, 1, 2, 3, 4, 5])]
                else:
                    tposs = [None, 0, 1, 2, 3, 4, 5]
                    hposs = [None, rng.choice([0, 1, 2, 3, 4, 5]), rng.choice([0, 1, 2, 3, 4, 5])]
                for tp in tposs:
                    for hp in hposs:
                        pw = rng.choice(orders.PWS)
                        extra = {}
                        if rng.random() < 0.2:
                            extra["second_pw"] = rng.choice(["-! alice secret", "+! dave pw2", "-x alice secret", "+x erin pw3"])
                        cases.append((ti, order, pol, tp, hp, pw, rng.randrange(1 << 30), extra))
    if scale < 1.0:
        cases = rng.sample(cases, max(50, int(len(cases) * scale)))
    return cases


def timer_reuse_worker(a):
    """Real timers and id re-use: client A of an id ends (withdrawn / registered / refused / replaced) before its 2 s timeout, client B
    takes the id and waits on an unanswered query.  B may be accepted only when ITS timeout has expired: an acceptance read back
    earlier than 2 s after B's announcement was written is premature whatever the machine's load (delays only make it later)."""
    import time
    b, seed = a["build"], a["seed"]
    rng = random.Random(seed)
    cfg = proto.Config([("login.svc", "login")], timeout=2)
    s = proto.Session(b, cfg, leaks=True)
    viol = []
    stats = {"timer_reuse_runs": 1, "timer_reuse_polls": 0, "timer_reuse_accepts_seen": 0}
    how = a["how"]
    cid = rng.choice([5, 40, 1029])
    try:
        t0 = time.monotonic()
        s.do({"t": "announce", "id": cid, "ip": "192.0.2.1", "port": 1001})
        for ev in ({"t": "password", "id": cid, "text": "+x alice pw"}, {"t": "host", "id": cid, "name": "ha"}, {"t": "ident", "id": cid, "name": "ia"},
                   {"t": "nick", "id": cid, "name": "na"}, {"t": "userinfo", "id": cid, "user": "ua", "real": "A"}):
            s.do(ev)
        if how == "disconnect":
            s.do({"t": "disconnect", "id": cid})
        elif how == "registered":
            s.do({"t": "registered", "id": cid})
        elif how == "refused":
            s.do({"t": "reply", "svc": "login.svc", "tag": "%x_1" % cid, "text": "NO denied"})
        time.sleep(max(0.0, t0 + a["gap"] - time.monotonic()))
        tb = time.monotonic()
        s.do({"t": "announce", "id": cid, "ip": "192.0.2.2", "port": 1002})
        for ev in ({"t": "password", "id": cid, "text": "+x bob pw"}, {"t": "host", "id": cid, "name": "hb"}, {"t": "ident", "id": cid, "name": "ib"},
                   {"t": "nick", "id": cid, "name": "nb"}, {"t": "userinfo", "id": cid, "user": "ub", "real": "B"}):
            s.do(ev)
        seen_at = None
        while time.monotonic() < tb + 2.9 and not s.dead:
            time.sleep(0.1)
            out = s.do({"t": "noise", "line": "-1 M irc.example.net 1"})
            now = time.monotonic()
            stats["timer_reuse_polls"] += 1
            for ln in out or []:
                c = proto.classify(ln)
                if c and c["kind"] == "client" and c["id"] == cid and c["cmd"] in "DR" and seen_at is None:
                    seen_at = now - tb
                    stats["timer_reuse_accepts_seen"] += 1
        s.finish()
    except Exception:
        s.kill()
        raise
    if seen_at is not None and seen_at < 2.0 - TIMER_SLACK:
        viol.append(("C02", "accept-before-timeout", "accept-before-timeout:" + how,
                     "id %d: the first holder ended (%s) and a newcomer took the id %.1f s later with a query unanswered; the newcomer was accepted %.2f s after ITS "
                     "announcement although the request timeout is 2 s (a timer of the earlier holder fired for it)\n%s" % (cid, how, a["gap"], seen_at, prun.render_trace(s.trace, 30)),
                     {"seed": seed, "how": how, "gap": a["gap"], "timer_reuse": True}))
    clean = s.res.clean() if s.res else False
    if seen_at is None:
        stats["timer_reuse_runs_without_accept"] = 1
    return {"viol": viol, "stats": dict(stats, daemon_unclean=0 if clean else 1), "crash": [], "nontrivial": seen_at is not None, "sample": None, "nsteps": len(s.trace.steps),
            "hash": vcommon.h(["timer-reuse", seed, how, a["gap"]]), "config": cfg.to_json(), "events": None}


def timeout_raised_worker(a):
    """Real timers across a reload that RAISES the request timeout: a client served under `timeout 1` (its timer fires), then a
    SIGUSR1 that says `timeout 3` (or 4), then a client that waits on an unanswered query.  It may be accepted only when the
    timeout in force when it was announced has expired: an acceptance read back earlier than that after its announcement was
    written is premature whatever the machine's load."""
    import time
    b, seed = a["build"], a["seed"]
    rng = random.Random(seed)
    new_to = a["new_timeout"]
    cfg = proto.Config([("login.svc", "login")], timeout=1)
    s = proto.Session(b, cfg, leaks=True)
    viol = []
    stats = {"timeout_raised_runs": 1, "timeout_raised_accepts_seen": 0, "timeout_raised_first_client_served": 0}
    seen_at = None

    def client(cid, acct):
        s.do({"t": "announce", "id": cid, "ip": "192.0.2.%d" % (cid % 200 + 1), "port": 1000 + cid})
        for ev in ({"t": "password", "id": cid, "text": "+x %s pw" % acct}, {"t": "host", "id": cid, "name": "h"}, {"t": "ident", "id": cid, "name": "i"},
                   {"t": "nick", "id": cid, "name": "n"}, {"t": "userinfo", "id": cid, "user": "u", "real": "R"}):
            s.do(ev)
    try:
        for k in range(a.get("before", 1)):
            client(5 + k, "alice")
        t0 = time.monotonic()
        while time.monotonic() < t0 + 2.5 and (5 in s.open) and not s.dead:
            time.sleep(0.1)
            s.do({"t": "noise", "line": "-1 M irc.example.net 1"})
        stats["timeout_raised_first_client_served"] = 0 if 5 in s.open else 1
        s.do({"t": "reload", "services": [["login.svc", "login"]], "timeout": new_to})
        cid = rng.choice([9, 5, 70000])
        tb = time.monotonic()
        client(cid, "bob")
        while time.monotonic() < tb + new_to + 0.9 and not s.dead:
            time.sleep(0.1)
            out = s.do({"t": "noise", "line": "-1 M irc.example.net 1"})
            now = time.monotonic()
            for ln in out or []:
                c = proto.classify(ln)
                if c and c["kind"] == "client" and c["id"] == cid and c["cmd"] in "DR" and seen_at is None:
                    seen_at = now - tb
                    stats["timeout_raised_accepts_seen"] += 1
            if seen_at is not None:
                break
        s.finish()
    except Exception:
        s.kill()
        raise
    if seen_at is not None and seen_at < new_to - TIMER_SLACK:
        viol.append(("C02", "accept-before-timeout", "accept-before-timeout:raised-by-reload",
                     "the request timeout was 1 s while an earlier client was served and was raised to %d s by a reload; a client announced after the reload, with a query unanswered, was accepted "
                     "%.2f s after its announcement\n%s" % (new_to, seen_at, prun.render_trace(s.trace, 30)), {"seed": seed, "new_timeout": new_to, "timeout_raised": True, "before": a.get("before", 1)}))
    clean = s.res.clean() if s.res else False
    return {"viol": viol, "stats": dict(stats, daemon_unclean=0 if clean else 1), "crash": [], "nontrivial": seen_at is not None, "sample": None, "nsteps": len(s.trace.steps),
            "hash": vcommon.h(["timeout-raised", seed, new_to]), "config": cfg.to_json(), "events": None}


def run(chk, tier, scale=1.0):
    b = prun.build_daemon("c02-" + tier)
    cases = order_cases(tier, chk.seed, scale, "c02")
    per = 40
    work = [dict(build=b, cases=cases[i:i + per], props=PROPS, want_sample=(i == 0)) for i in range(0, len(cases), per)]
    for rs in vcommon.pmap(prun.orders_worker, work):
        prun.fold(chk, "C02", rs)
    chk.count("enumerated_order_histories", len(cases))
    n = int((500 if tier == "quick" else 10000) * scale)
    opts = {"weights": {"timeout": 8, "hurry": 5, "reply": 22, "password": 14, "stray": 3}, "reply_kinds": ["OK", "OKacct", "NO", "AGAIN", "MORE", "junk", "OKspace"]}
    jobs = pcommon.hist_jobs(b, n, chk.seed, PROPS, opts=opts, tag="c02", want_class=False)
    prun.fold(chk, "C02", vcommon.pmap(prun.hist_worker, jobs, chunksize=4))
    for rs in vcommon.pmap(pcommon.script_worker, pcommon.reload_jobs(b, chk.seed, PROPS, int((160 if tier == "quick" else 4000) * scale), tag="rls2")):
        prun.fold(chk, "C02", rs)
    # real timers and id re-use (wall clock is used one-sidedly: an acceptance seen too EARLY is a violation, lateness never is)
    tjobs = [dict(build=b, seed=chk.seed * 50 + k, how=["disconnect", "registered", "refused", "replaced"][k % 4], gap=[0.8, 1.2, 1.5][k % 3])
             for k in range(8 if tier == "quick" else 48)]
    rjobs = [dict(build=b, seed=chk.seed * 60 + k, new_timeout=[3, 4][k % 2], before=[1, 2][k % 2]) for k in range(4 if tier == "quick" else 24)]
    prun.fold(chk, "C02", vcommon.pmap(timer_reuse_worker, tjobs) + vcommon.pmap(timeout_raised_worker, rjobs))
    chk.require("timeout_raised_accepts_seen", 2)
    # service tables around the width of the per-client masks (the awaiting mask must not lose or alias a service)
    import build as buildmod
    from checks import c06
    bplain = buildmod.build_daemon(buildmod.fresh_dir("c02p-" + tier), "plain")
    mjobs = [dict(build=(bplain if k % 2 else b), n=n_, seed=chk.seed * 100 + k, mixed=(k % 4 < 2), props=PROPS)
             for k, n_ in enumerate([31, 32, 32, 31, 33, 40, 33, 34] * (1 if tier == "quick" else 6))]
    prun.fold(chk, "C02", vcommon.pmap(c06._many_worker, mjobs))
    # the module interface no shipped module uses (set address / host name / user name, challenge, kill, accept, holds ...), driven
    # through the fixture module site_api and compared line for line with a model of the core (lib/sitemodel.py)
    import sitemodel
    sitemodel.fold_site(chk, "C02", tier, scale, 1013, ('C02',))
    chk.rule = ("all 120 arrival orders of {host result, ident, nick, user info, password} x 7 service tables (each protocol alone, mixed, two login services, none) "
                "x reply policies (immediately OK / OK+account, at the end, reversed, never, NO first, mixed kinds) x request timeout fired through the guarded hook before "
                "position 0..5 or never x hurry-up position x password mode strings (+x, +!, -, +x!, none, a second password); plus random multi-client histories; "
                "every D/R line is judged against the input history (required data or H, unanswered queries unless the timeout fired, +! without account, refusal); "
                "distinct = hash of (config, input lines); non-trivial = at least one verdict")
    chk.require("timer_reuse_accepts_seen", 4)
    chk.require("accepts", 3000 * min(1.0, scale))
    chk.require("timeouts_effective", 1000 * min(1.0, scale))
    chk.require("accept_checks_with_await_history", 100 * min(1.0, scale))
    chk.require("plus_bang_instances", 300 * min(1.0, scale))
    chk.assumptions += ["required items are read from the policy line the daemon prints at start-up",
                        "the timeout hook runs the real handler; histories configure timeout 3600 so the real timer never fires on its own"]


def replay(chk, rep):
    if rep["witness"].get("timeout_raised"):
        w = rep["witness"]
        r = timeout_raised_worker(dict(build=prun.build_daemon("c02-replay"), seed=w["seed"], new_timeout=w["new_timeout"], before=w.get("before", 1)))
        for v in r["viol"]:
            print(v[3])
        return 1 if r["viol"] else 0
    if rep["witness"].get("timer_reuse"):
        w = rep["witness"]
        r = timer_reuse_worker(dict(build=prun.build_daemon("c02-replay"), seed=w["seed"], how=w["how"], gap=w["gap"]))
        for v in r["viol"]:
            print(v[3])
        return 1 if r["viol"] else 0
    if rep["witness"].get("site"):
        import sitemodel
        return sitemodel.replay_site(chk, rep["witness"], "C02", ('C02',))
    return prun.replay_witness(chk, rep, PROPS)
