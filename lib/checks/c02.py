"""C02 - no premature acceptance (DESIGN.md C02)."""
import random

import orders
import prun
import vcommon
from checks import pcommon

LEVEL = "exploration"
PROPS = ["C02"]


def order_cases(tier, seed, scale, tag):
    """Enumerated cases: all 120 arrival orders x service tables x reply policies x timeout / hurry positions."""
    rng = random.Random("%s/%d" % (tag, seed))
    cases = []
    ords = orders.all_orders()
    for oi, order in enumerate(ords):
        for ti in range(len(orders.TABLES)):
            pols = orders.POLICIES if tier != "quick" else rng.sample(orders.POLICIES, 3)
            for pol in pols:
                if tier == "quick":
                    tposs = rng.sample([None, 0, 1, 2, 3, 4, 5], 2)
                    hposs = [rng.choice([None, None, 0, 1, 2, 3, 4, 5])]
                else:
                    tposs = [None, 0, 1, 2, 3, 4, 5]
                    hposs = [None, rng.choice([0, 1, 2, 3, 4, 5]), rng.choice([0, 1, 2, 3, 4, 5])]
                for tp in tposs:
                    for hp in hposs:
                        pw = rng.choice(orders.PWS)
                        extra = {}
                        if rng.random() < 0.2:
                            extra["second_pw"] = rng.choice(["-! alice secret", "+! dave pw2", "-x alice secret", "+x erin pw3"])
                        cases.append((ti, order, pol, tp, hp, pw, rng.randrange(1 << 30), extra))
    if scale < 1.0:
        cases = rng.sample(cases, max(50, int(len(cases) * scale)))
    return cases


def run(chk, tier, scale=1.0):
    b = prun.build_daemon("c02-" + tier)
    cases = order_cases(tier, chk.seed, scale, "c02")
    per = 40
    work = [dict(build=b, cases=cases[i:i + per], props=PROPS, want_sample=(i == 0)) for i in range(0, len(cases), per)]
    for rs in vcommon.pmap(prun.orders_worker, work):
        prun.fold(chk, "C02", rs)
    chk.count("enumerated_order_histories", len(cases))
    n = int((500 if tier == "quick" else 10000) * scale)
    opts = {"weights": {"timeout": 8, "hurry": 5, "reply": 22, "password": 14, "stray": 3}, "reply_kinds": ["OK", "OKacct", "NO", "AGAIN", "MORE", "junk", "OKspace"]}
    jobs = pcommon.hist_jobs(b, n, chk.seed, PROPS, opts=opts, tag="c02", want_class=False)
    prun.fold(chk, "C02", vcommon.pmap(prun.hist_worker, jobs, chunksize=4))
    # service tables around the width of the per-client masks (the awaiting mask must not lose or alias a service)
    import build as buildmod
    from checks import c06
    bplain = buildmod.build_daemon(buildmod.fresh_dir("c02p-" + tier), "plain")
    mjobs = [dict(build=(bplain if k % 2 else b), n=n_, seed=chk.seed * 100 + k, mixed=(k % 4 < 2), props=PROPS)
             for k, n_ in enumerate([31, 32, 32, 31, 33, 40, 33, 34] * (1 if tier == "quick" else 6))]
    prun.fold(chk, "C02", vcommon.pmap(c06._many_worker, mjobs))
    chk.rule = ("all 120 arrival orders of {host result, ident, nick, user info, password} x 7 service tables (each protocol alone, mixed, two login services, none) "
                "x reply policies (immediately OK / OK+account, at the end, reversed, never, NO first, mixed kinds) x request timeout fired through the guarded hook before "
                "position 0..5 or never x hurry-up position x password mode strings (+x, +!, -, +x!, none, a second password); plus random multi-client histories; "
                "every D/R line is judged against the input history (required data or H, unanswered queries unless the timeout fired, +! without account, refusal); "
                "distinct = hash of (config, input lines); non-trivial = at least one verdict")
    chk.require("accepts", 3000 * min(1.0, scale))
    chk.require("timeouts_effective", 1000 * min(1.0, scale))
    chk.require("accept_checks_with_await_history", 100 * min(1.0, scale))
    chk.require("plus_bang_instances", 300 * min(1.0, scale))
    chk.assumptions += ["required items are read from the policy line the daemon prints at start-up",
                        "the timeout hook runs the real handler; histories configure timeout 3600 so the real timer never fires on its own"]


def replay(chk, rep):
    return prun.replay_witness(chk, rep, PROPS)
