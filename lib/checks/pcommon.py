"""Shared pieces of the protocol checks."""
import random

import gen
import proto

RULESETS = [
    [],
    [{"name": "r1", "class": "trusted", "account": "ali*"}, {"name": "r2", "class": "others"}],
    [{"name": "B", "xreply_ok": "login.svc"}, {"name": "a", "class": "v4", "address": "0.0.0.0/0"}, {"name": "c", "class": "rest", "trust_username": "yes"}],
    [{"name": "Z9", "class": "acct", "account": "?ob"}, {"name": "z10", "class": "local", "address": "127.*"}, {"name": "zz", "class": "six", "address": "2001:db8::/32"},
     {"name": "zzz", "hostname": "*.example", "username": "~*", "trust_username": "1"}],
]


def random_config(rng, want_class=None, timeout_choices=(None, 3600, 3600)):
    svcs = gen.service_tables(rng)
    use_class = rng.random() < 0.4 if want_class is None else want_class
    rules = rng.choice(RULESETS) if use_class else []
    return proto.Config(svcs, timeout=rng.choice(list(timeout_choices)), rules=rules, use_class=use_class)


def hist_jobs(build, n, seed, props, n_events=120, ids_pool=(3, 4, 5, 6, 17), opts=None, want_class=None, cfg_fn=None, leaks=True,
              tag="h", sample_every=None, reload_share=0.25, vary_addr=0.5):
    """Random-history jobs.  A share of them contains SIGUSR1 reloads that switch between service tables (names keep their
    protocol); re-used ids come back with another address / port with probability vary_addr."""
    jobs = []
    for i in range(n):
        rng = random.Random("%s/%d/%d" % (tag, seed, i))
        cfg = cfg_fn(rng) if cfg_fn else random_config(rng, want_class)
        ids = list(ids_pool)[:rng.choice([3, 4, 5])] if len(ids_pool) >= 5 else list(ids_pool)
        if i % 4 == 2 and len(ids_pool) >= 5:
            # ids that agree in their low 8 / 10 / 16 bits, and ids at the ends of the int range (the table is keyed by int)
            ids = [[5, 261, 1029, 65541], [7, 7 + 1024, 7 + 2048, 7 + (1 << 20)], [-2147483648, 2147483647, -2, 2000000000, -2000000000]][(i // 4) % 3]
        o = dict(opts or {})
        o.setdefault("vary_addr", vary_addr)
        rng2 = random.Random("%s/r/%d/%d" % (tag, seed, i))
        if rng2.random() < reload_share:
            w = dict(o.get("weights") or {})
            w["reload"] = 3
            o["weights"] = w
            o["alt_services"] = gen.reload_tables(rng2, cfg.services)
        jobs.append(dict(build=build, config=cfg.to_json(), seed=rng.randrange(1 << 30), n=n_events, ids=ids, props=props,
                         opts=o, leaks=leaks, want_sample=(i < 2)))
    return jobs
