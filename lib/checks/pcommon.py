"""Shared pieces of the protocol checks."""
import os
import random
import select
import time

import gen
import proto

RULESETS = [
    [],
    [{"name": "r1", "class": "trusted", "account": "ali*"}, {"name": "r2", "class": "others"}],
    [{"name": "B", "xreply_ok": "login.svc"}, {"name": "a", "class": "v4", "address": "0.0.0.0/0"}, {"name": "c", "class": "rest", "trust_username": "yes"}],
    [{"name": "Z9", "class": "acct", "account": "?ob"}, {"name": "z10", "class": "local", "address": "127.*"}, {"name": "zz", "class": "six", "address": "2001:db8::/32"},
     {"name": "zzz", "hostname": "*.example", "username": "~*", "trust_username": "1"}],
]


def random_config(rng, want_class=None, timeout_choices=(None, 3600, 3600, 0)):
    svcs = gen.service_tables(rng)
    use_class = rng.random() < 0.4 if want_class is None else want_class
    rules = rng.choice(RULESETS) if use_class else []
    cfg = proto.Config(svcs, timeout=rng.choice(list(timeout_choices)), rules=rules, use_class=use_class)
    # the modules may be listed explicitly and in either order, or pulled in through their dependencies (the default rendering)
    r2 = random.Random(rng.random())
    k = r2.random()
    if k < 0.15:
        cfg.modules = ("iauth_xquery", "iauth_class") if use_class else ("iauth", "iauth_xquery")
    elif k < 0.3:
        cfg.modules = ("iauth_class", "iauth_xquery", "iauth") if use_class else ("iauth_xquery", "iauth")
    elif k < 0.34 and not use_class:
        # the core alone: no service module, hence no services and no required data beyond the host name result
        cfg.modules = ("iauth",)
        cfg.services = []
    # where the log lines go: nowhere (no logs section), everything including debug output to one file, or split by facility
    r3 = random.Random(r2.random())
    k = r3.random()
    if k < 0.25:
        cfg.logs = '    "*.*" "file:all.log";'
    elif k < 0.35:
        cfg.logs = '    "*.>=warning" "file:warn.log";\n    "iauth_xquery.debug" "file:x.log";\n    "iauth.debug,command" ( "file:i.log", "file:all.log" );\n    "iauth_class.*" "file:class.log";'
    elif k < 0.4:
        # entries that name no facility / no severity the daemon knows (a destination that cannot be opened is fatal by design: not used)
        cfg.logs = '    "bogus.*" "file:b.log";\n    "*.nosuchlevel" "file:c.log";\n    "iauth.debug,bogus" "file:d.log";\n    "*.<=info" ( "file:e.log", "file:e.log" );'
    elif k < 0.46:
        # a destination that can be opened but not written to (a full disk), for everything including the core's own errors
        cfg.logs = '    "*.*" ( "file:/dev/full", "file:all.log" );'
    return cfg


def collision_scripts(rng, n):
    """Directed scripts for two clients whose ids agree in their low 5 / 8 / 10 / 16 bits (or not at all): both are live at once, one
    leaves first in some way, the other goes on (its lines must still count), leaves too, and a late answer for it arrives.
    Returns [(Config, [events])]; tags are predicted from the announcement order."""
    out = []
    for _ in range(n):
        a = rng.choice([5, 37, 1, 300, 70000, 2])
        b = a + rng.choice([32, 256, 1024, 65536, 1 << 20, 1 << 31 - 1, 3, 7])
        if rng.random() < 0.5:
            a, b = b, a
        svcs = [("login.svc", "login")] + ([("drone.svc", "dronecheck")] if rng.random() < 0.5 else [])
        cfg = proto.Config(svcs, timeout=rng.choice([None, 3600]))
        tag = lambda cid, ser: "%x_%x" % (cid & 0xffffffff, ser)
        ev = [{"t": "announce", "id": a, "ip": "192.0.2.1", "port": 1001}, {"t": "announce", "id": b, "ip": "192.0.2.2", "port": 1002},
              {"t": "password", "id": b, "text": "+x bob pw"}]
        if rng.random() < 0.5:
            ev.append({"t": "password", "id": a, "text": "+x alice pw"})
        data_b = [{"t": "host", "id": b, "name": "hb.example"}, {"t": "ident", "id": b, "name": "idb"}, {"t": "nick", "id": b, "name": "nb"},
                  {"t": "userinfo", "id": b, "user": "ub", "real": "Real B"}]
        rng.shuffle(data_b)
        k = rng.randint(0, 4)
        ev += data_b[:k]
        # a leaves first
        how = rng.choice(["disconnect", "registered", "hurry+reply", "no"])
        if how in ("disconnect", "registered"):
            ev.append({"t": how, "id": a})
        elif how == "no":
            ev += [{"t": "password", "id": a, "text": "+x alice pw2"}, {"t": "reply", "svc": "login.svc", "tag": tag(a, 1), "text": "NO go away"},
                   {"t": "disconnect", "id": a}]
        else:
            ev += [{"t": "hurry", "id": a}, {"t": "reply", "svc": "login.svc", "tag": tag(a, 1), "text": "OK"}] + \
                  [{"t": "reply", "svc": n_, "tag": tag(a, 1), "text": "OK"} for n_, p_ in svcs[1:]] + [{"t": "registered", "id": a}]
        ev.append({"t": "stats"})
        # b goes on
        ev += data_b[k:]
        end = rng.choice(["leave-then-late-reply", "answer", "hurry"])
        if end == "leave-then-late-reply":
            ev += [{"t": rng.choice(["disconnect", "registered"]), "id": b}, {"t": "stats"},
                   {"t": "reply", "svc": "login.svc", "tag": tag(b, 2), "text": rng.choice(["OK bob", "NO late", "MORE x"])}]
        elif end == "answer":
            ev += [{"t": "reply", "svc": "login.svc", "tag": tag(b, 2), "text": "OK bob"}] + [{"t": "reply", "svc": n_, "tag": tag(b, 2), "text": "OK"} for n_, p_ in svcs[1:]]
        else:
            ev += [{"t": "hurry", "id": b}, {"t": "reply", "svc": "login.svc", "tag": tag(b, 2), "text": "OK"}]
        ev += [{"t": "stats"}, {"t": "announce", "id": a, "ip": "192.0.2.3", "port": 1003}, {"t": "hurry", "id": a}, {"t": "stats"}]
        out.append((cfg, ev))
    return out


def reload_scripts(rng, n):
    """Directed scripts around a SIGUSR1 that removes a service which still owes something: an answer, or the continuation of a
    MORE dialogue.  The password comes first (the login-type service chal.svc is asked at once), the registration data afterwards
    (the dronecheck service keep.svc is asked when it is complete).  Returns [(Config, [events])]."""
    out = []
    for k_ in range(n):
        lp = rng.choice(["login", "login", "login-ipr"])
        svcs = [("chal.svc", lp), ("keep.svc", "dronecheck")]
        after = [svcs[1]]
        cfg = proto.Config(svcs, timeout=rng.choice([None, 3600]))
        kind = ["more-then-removed", "leaver-then-removed", "more-then-removed", "owed-answer", "two-waiters", "leaver-then-removed", "retry-then-removed",
                "more-then-replaced", "removed-then-leave", "ok-then-slot-reused", "first-service-added", "ok-held-then-service-added", "rule-names-retired-service"][k_ % 13]
        if kind == "rule-names-retired-service":
            # a class rule asks for named.svc's OK and places one client; reloads that touch only the service table retire named.svc
            # and put another service in (possibly in its place in the table); the next client is approved by that other service:
            # the rule still names named.svc, which is not there and has said nothing about this client
            lp2 = rng.choice(["login", "login-ipr"])
            cfg = proto.Config([("named.svc", lp2)], timeout=3600, rules=[{"name": "a1", "xreply_ok": "named.svc", "class": "vip"}, {"name": "z9", "class": "plain"}], use_class=True)
            other = rng.choice(["other.svc", "a-other.svc", "zz.svc"])
            def client(cid, acct, svc, tag, text):
                return [{"t": "announce", "id": cid, "ip": "192.0.2.%d" % cid, "port": 1000 + cid}, {"t": "host", "id": cid, "name": "h%d.example" % cid}, {"t": "ident", "id": cid, "name": "id%d" % cid},
                        {"t": "password", "id": cid, "text": "+x %s pw" % acct}, {"t": "reply", "svc": svc, "tag": tag, "text": text},
                        {"t": "nick", "id": cid, "name": "n%d" % cid}, {"t": "userinfo", "id": cid, "user": "u%d" % cid, "real": "R"}, {"t": "hurry", "id": cid}]
            ev = client(5, "u1", "named.svc", "5_1", "OK u1")
            if rng.random() < 0.5:
                ev += client(7, "u7", "named.svc", "7_2", rng.choice(["OK", "NO refused", "OK u7"]))
                nxt = 3
            else:
                nxt = 2
            otherp = rng.choice(["login", "login-ipr"])
            ev += [{"t": "reload", "services": []}, {"t": "reload", "services": [[other, otherp]]}]
            if rng.random() < 0.4:
                # (a name keeps its protocol across the reloads of one history - the monitor's standing assumption)
                ev += [{"t": "reload", "services": [[other, otherp], ["named.svc", lp2]]}]
                # named.svc is back (a new entry): it is asked, and it refuses to vouch - only the other one says OK
                ev += client(9, "u2", other, "9_%x" % nxt, "OK u2")[:-1] + [{"t": "unlinked", "svc": "named.svc", "tag": "9_%x" % nxt, "text": "Server not online"}, {"t": "hurry", "id": 9}]
            else:
                ev += client(9, "u2", other, "9_%x" % nxt, "OK u2")
            ev += [{"t": "timeout", "id": 9}, {"t": "stats"}]
            out.append((cfg, ev))
            continue
        if kind == "ok-held-then-service-added":
            # two services are asked; one has said OK and the other still owes its answer when a reload ADDS a third service (before,
            # between or behind them in the file); the owed answer then arrives: a class rule asking for the first one's OK still matches
            names = ["a.svc", "b.svc"]
            okfrom = rng.choice(names)
            other = [x for x in names if x != okfrom][0]
            protos = {okfrom: rng.choice(["dronecheck", "dronecheck", "combined"]), other: rng.choice(["dronecheck", "combined"])}
            svcs2 = [(nm, protos[nm]) for nm in names]
            cfg = proto.Config(svcs2, timeout=3600, rules=[{"name": "a1", "xreply_ok": okfrom, "class": "checked"}, {"name": "z9", "class": "plain"}], use_class=True)
            cid = rng.choice([5, 0, 70000])
            newn = rng.choice(["0new.svc", "ab.svc", "c.svc", "zz.svc"])
            added = sorted([list(x) for x in svcs2] + [[newn, rng.choice(["dronecheck", "login", "combined"])]]) if rng.random() < 0.5 else \
                [list(x) for x in svcs2] + [[newn, rng.choice(["dronecheck", "login"])]]
            tag5 = "%x_1" % cid
            ev = [{"t": "announce", "id": cid, "ip": "192.0.2.5", "port": 1005}, {"t": "host", "id": cid, "name": "h5.example"}, {"t": "ident", "id": cid, "name": "id5"},
                  {"t": "nick", "id": cid, "name": "n5"}, {"t": "userinfo", "id": cid, "user": "u5", "real": "R"},
                  {"t": "reply", "svc": okfrom, "tag": tag5, "text": "OK"}, {"t": "reload", "services": added}]
            if rng.random() < 0.3:
                ev += [{"t": "reload", "services": added + [["later.svc", "dronecheck"]]}]
            ev += [{"t": "reply", "svc": other, "tag": tag5, "text": "OK"}, {"t": "reply", "svc": newn, "tag": tag5, "text": "OK"}, {"t": "hurry", "id": cid}, {"t": "timeout", "id": cid}, {"t": "stats"}]
            out.append((cfg, ev))
            continue
        if kind == "first-service-added":
            # the service table is empty when the client is announced; a reload adds the first service(s); the rest of the client's
            # data arrives afterwards: the newcomers are asked as soon as what their protocols need is known
            cfg = proto.Config([], timeout=rng.choice([None, 3600]))
            cid = rng.choice([5, 0, 70000])
            newp = rng.choice(["dronecheck", "combined", "login-ipr", "login"])
            pre_ = [{"t": "host", "id": cid, "name": "h5.example"}, {"t": "ident", "id": cid, "name": "id5"}, {"t": "password", "id": cid, "text": "+x acct5 pw"}]
            post_ = [{"t": "nick", "id": cid, "name": "n5"}, {"t": "userinfo", "id": cid, "user": "u5", "real": "R"}]
            rng.shuffle(pre_)
            cut_ = rng.randint(0, 2)
            ev = [{"t": "announce", "id": cid, "ip": "192.0.2.5", "port": 1005}] + pre_[:cut_] + \
                 [{"t": "reload", "services": [["first.svc", newp]] + ([["second.svc", "dronecheck"]] if rng.random() < 0.4 else [])}] + pre_[cut_:] + post_ + \
                 [{"t": "hurry", "id": cid}, {"t": "stats"}]
            out.append((cfg, ev))
            continue
        if kind == "ok-then-slot-reused":
            # chal.svc says OK; one reload removes it, the next adds new.svc (which may take its place in the table); new.svc never
            # answers and the client is accepted by its timeout: a class rule asking for new.svc's OK must not match
            cfg = proto.Config(svcs, timeout=3600, rules=[{"name": "a1", "xreply_ok": "new.svc", "class": "vip"}, {"name": "z9", "class": "plain"}], use_class=True)
            cid = 5
            newp = rng.choice(["login", "login-ipr", "dronecheck", "combined"])
            ev = [{"t": "announce", "id": cid, "ip": "192.0.2.5", "port": 1005}, {"t": "host", "id": cid, "name": "h5.example"}, {"t": "ident", "id": cid, "name": "id5"},
                  {"t": "password", "id": cid, "text": "+x acct5 pw"}, {"t": "reply", "svc": "chal.svc", "tag": "5_1", "text": rng.choice(["OK acct5", "OK"])},
                  {"t": "reload", "services": [list(svcs[1])]}, {"t": "reload", "services": [list(svcs[1]), ["new.svc", newp]]},
                  {"t": "nick", "id": cid, "name": "n5"}, {"t": "userinfo", "id": cid, "user": "u5", "real": "R"},
                  {"t": "reply", "svc": "keep.svc", "tag": "5_1", "text": "OK"}, {"t": "hurry", "id": cid}, {"t": "timeout", "id": cid}, {"t": "stats"}]
            if (k_ // 13) % 2 == 1:
                # ... or the client already has all its data (keep.svc is asked and silent) when the reloads happen, and NOTHING more
                # is said about it: the request timer accepts it
                ev = ev[:3] + ev[7:9] + ev[3:5] + ev[5:7] + [{"t": "timeout", "id": cid}, {"t": "stats"}]
            out.append((cfg, ev))
            continue
        two_step = None
        if kind == "more-then-replaced":
            # the challenger is removed and ANOTHER service is added by the same reload (it may take the challenger's place in the table)
            after = [svcs[1], ("new.svc", rng.choice(["login", "login-ipr", "dronecheck"]))]
            kind = "more-then-removed"
            if (k_ // 13) % 2 == 1:
                # ... or by the next reload, when the challenger's entry is gone for good
                two_step = after
                after = [svcs[1]]
        cids = [5, 9] if kind in ("two-waiters", "leaver-then-removed", "retry-then-removed") else [5]
        ev = []
        ser = {}
        data = {}
        for k, cid in enumerate(cids):
            ser[cid] = k + 1
            ev += [{"t": "announce", "id": cid, "ip": "192.0.2.%d" % cid, "port": 1000 + cid}]
            first = [{"t": "host", "id": cid, "name": "h%d.example" % cid}, {"t": "ident", "id": cid, "name": "id%d" % cid}]   # what login-ipr needs
            rest = [{"t": "nick", "id": cid, "name": "n%d" % cid}, {"t": "userinfo", "id": cid, "user": "u%d" % cid, "real": "R"}]
            ev += first + [{"t": "password", "id": cid, "text": "%s acct%d pw" % (rng.choice(["+x", "+x", "+", "+!"]), cid)}]
            data[cid] = rest
        tag = lambda cid: "%x_%x" % (cid, ser[cid])
        finish = lambda cid: data[cid] + [{"t": "reply", "svc": "keep.svc", "tag": tag(cid), "text": "OK"}, {"t": "hurry", "id": cid}]
        reload_ev = {"t": "reload", "services": [list(x) for x in after]}
        if kind == "removed-then-leave":
            # complete, waiting only for chal.svc; the reload removes chal.svc; the client is withdrawn / registered before any answer:
            # nothing more may be said about it - and a late answer changes nothing
            ev += data[5] + [{"t": "reply", "svc": "keep.svc", "tag": tag(5), "text": "OK"}, reload_ev,
                             {"t": rng.choice(["disconnect", "registered"]), "id": 5}, {"t": "stats"},
                             {"t": "reply", "svc": "chal.svc", "tag": tag(5), "text": "OK acct5"}]
        elif kind == "more-then-removed":
            ev += [{"t": "reply", "svc": "chal.svc", "tag": tag(5), "text": "MORE prove it"}, reload_ev] + \
                  ([{"t": "reload", "services": [list(x) for x in two_step]}] if two_step else []) + [{"t": "password", "id": 5, "text": "response1"}]
            if rng.random() < 0.4:
                ev += [{"t": "password", "id": 5, "text": "-! acct5 pw2"}]
            ev += finish(5)
        elif kind == "retry-then-removed":
            # one client is told AGAIN and retries (asked a second time), another waits on the same service; the reload removes the
            # service while both wait; the retrying client is answered first
            a_, b_ = (5, 9) if rng.random() < 0.5 else (9, 5)
            ev += [{"t": "reply", "svc": "chal.svc", "tag": tag(a_), "text": "AGAIN try again"}, {"t": "password", "id": a_, "text": "+x acct%d pw2" % a_}, reload_ev,
                   {"t": "reply", "svc": "chal.svc", "tag": tag(a_), "text": "OK acct%d" % a_}] + finish(a_) + \
                  [{"t": "reply", "svc": "chal.svc", "tag": tag(b_), "text": rng.choice(["OK acct%d" % b_, "NO refused %d" % b_])}] + finish(b_)
        elif kind == "leaver-then-removed":
            # both clients were asked; the service answers one of them, who then leaves (withdrawn, registered, or refused) - the other
            # is still owed its answer when the reload removes the service, and gets it afterwards
            a_, b_ = (5, 9) if rng.random() < 0.5 else (9, 5)
            how = rng.choice(["ok-then-disconnect", "ok-then-registered", "no", "again-retry-then-ok"])
            if how == "no":
                ev += [{"t": "reply", "svc": "chal.svc", "tag": tag(a_), "text": "NO refused"}]
            elif how == "again-retry-then-ok":
                ev += [{"t": "reply", "svc": "chal.svc", "tag": tag(a_), "text": "AGAIN retry"}, {"t": "password", "id": a_, "text": "+x acct%d pw2" % a_},
                       {"t": "reply", "svc": "chal.svc", "tag": tag(a_), "text": "OK acct%d" % a_}] + finish(a_) + [{"t": "registered", "id": a_}]
            else:
                ev += [{"t": "reply", "svc": "chal.svc", "tag": tag(a_), "text": "OK acct%d" % a_},
                       {"t": "disconnect" if how == "ok-then-disconnect" else "registered", "id": a_}]
            ev += [reload_ev, {"t": "reply", "svc": "chal.svc", "tag": tag(b_), "text": rng.choice(["OK acct%d" % b_, "OK", "NO refused %d" % b_])}] + finish(b_)
        else:
            ev += [reload_ev]
            order = list(cids)
            rng.shuffle(order)
            for cid in order:
                ev += [{"t": "reply", "svc": "chal.svc", "tag": tag(cid), "text": rng.choice(["OK acct%d" % cid, "OK", "NO refused %d" % cid, "AGAIN retry"])}]
            for cid in cids:
                ev += finish(cid)
        ev += [{"t": "stats"}]
        out.append((cfg, ev))
    return out


def burst_worker(a):
    """A burst: many clients whose short lines arrive in ONE write (several hundred lines per read), then silence.  Judged when the
    daemon sleeps with its input drained - a state read from /proc and the pipe, not a deadline: every client that has been given
    all it needs has its verdict by then, exactly one, and nobody else has one.  No hook is used."""
    import re
    import daemon
    import vcommon
    b, seed, n = a["build"], a["seed"], a["n"]
    rng = random.Random(seed)
    use_class = rng.random() < 0.4
    # (with `after`: a login service next to the drone check; nobody sends a password before the verdict, so it is asked only if a
    # password that arrives after the verdict is still taken to be the client's)
    cfg = proto.Config(([("drone.svc", "dronecheck")] + ([("login.svc", "login")] if a.get("after") else [])) if a.get("service") else [], timeout=rng.choice([None, 3600]),
                       rules=[{"name": "r1", "address": "10.0.1.0/24", "class": "one"}, {"name": "r2", "class": "rest"}] if use_class else [], use_class=use_class)
    ids = [k + 1 for k in range(n)] if rng.random() < 0.5 else rng.sample(range(1, 100000), n)
    lines = ["%d C 10.0.%d.%d 1 10.0.0.1 1" % (cid, (k >> 8) & 255, k & 255) for k, cid in enumerate(ids)]
    complete = set()
    gone = set()
    steps_ = rng.choice([["d", "u a", "n b", "U a b c :d"], ["N h.example", "u a", "n b", "U a b c :d"], ["n b", "U a b c :d", "H"], ["d", "H"], ["H"]])
    rng.shuffle(steps_)
    for cmd in steps_:
        for cid in ids:
            lines.append("%d %s" % (cid, cmd))
    complete = set(ids)      # every one of these step lists gives a client all it needs (or hurries it)
    if a.get("service"):
        # the dronecheck service is asked about every complete client; it answers all of them in the same burst (serial = order of announcement)
        for k, cid in enumerate(ids):
            lines.append("-1 X drone.svc %x_%x :OK" % (cid, k + 1))
    if a.get("after"):
        # more lines about the same clients right behind the ones that decide them, in the same write: a password, another
        # hurry-up, a late reply - the client has its verdict by then and nothing more may be said about it
        extra = rng.choice([["P :+x acct pw", "H"], ["H", "n other"], ["P :+x acct pw"], ["u late", "H"]])
        for cmd in extra:
            for cid in ids:
                lines.append("%d %s" % (cid, cmd))
        if a.get("service"):
            for k, cid in enumerate(ids):
                lines.append("-1 X drone.svc %x_%x :OK" % (cid, k + 1))
    tail = rng.choice([None, "D", "T"])
    if tail:
        half = ids[::2]
        for cid in half:
            lines.append("%d %s" % (cid, tail))
        gone = set(half)
    if seed % 2 == 1:
        # lines that are about nobody, here and there in the burst (an id no integer type holds, an id nobody has, a blank line, an
        # unknown command): each is dropped on its own - the lines behind it in the same read are handled as if it were not there
        for _ in range(rng.choice([1, 2, 5])):
            lines.insert(rng.randrange(1, len(lines)), rng.choice(["99999999999999999999 H", "4294967301 H", "-99999999999999999999 D", "123456 D", "123457 T", "", "-1 zzz", "-1 M",
                                                                   "123458 P :+x a b", "   ", "18446744073709551621 C 1.2.3.4 5 6.7.8.9 10"]))
    data = ("\n".join(lines) + "\n").encode("latin-1")
    if a.get("pad4096"):
        # the burst is a whole number of 4096-byte reads long: the last read fills the daemon's buffer exactly, and nothing follows
        pad = (-len(data) - 8) % 4096
        data += b"-1 zzz " + b"p" * pad + b"\n"
        data += b"\n" * ((-len(data)) % 4096)
    res = {"viol": [], "stats": {"burst_runs": 1, "burst_lines": len(lines), "burst_verdicts_at_quiescence": 0}, "inconc": [], "hash": vcommon.h(["burst", seed, n]), "nontrivial": bool(complete)}
    # sock: the daemon's standard input and output are ONE socket, as under an IRC server, and the reader falls behind: nothing is
    # read while input can still be written (the daemon's writes have to wait for the reader; none may get lost)
    d = daemon.Daemon(b, cfg.text(b["moddir"]), leaks=True, hooks=False, watchdog=60.0, transport="socketpair" if a.get("sock") else None)
    res["stats"]["burst_runs_on_a_shared_socket"] = 1 if a.get("sock") else 0
    try:
        os.set_blocking(d.ifd, False)
        pos = 0
        t_end = time.time() + 60
        while pos < len(data) and time.time() < t_end:
            if a.get("sock"):
                r_, w_, _ = select.select([], [d.ifd], [], 0)
                if not w_:
                    r_, w_, _ = select.select([d.ofd], [d.ifd], [], 1.0)
            else:
                r_, w_, _ = select.select([d.ofd], [d.ifd], [], 1.0)
            if r_:
                c = os.read(d.ofd, 1 << 16)
                if not c:
                    break
                d.buf += c
            if w_:
                try:
                    pos += os.write(d.ifd, data[pos:pos + 65536])
                except BlockingIOError:
                    pass
        os.set_blocking(d.ifd, True)
        quiet = pos == len(data) and daemon.wait_quiescent(d, 40.0)
        at_rest = d.buf.decode("latin-1").split("\n")
        r = d.finish()
    except (daemon.Died, daemon.Hang, OSError):
        d.kill()
        res["inconc"].append("daemon died / hung in a burst run")
        return res
    if not quiet and getattr(d, "blocked_in_read", False) and pos == len(data):
        # every byte was taken, and the daemon sleeps inside read(2) on its input for two seconds on end: whatever it has not said by
        # now it will not say until the server sends something else
        res["stats"]["burst_runs_ending_blocked_in_read"] = 1
        quiet = True
    if not quiet:
        res["inconc"].append("the daemon did not come to rest within the watchdog time in a burst run")
        return res
    if not r.clean():
        res["inconc"].append("daemon unclean in a burst run (%s); see C08" % (r.describe(),))
        return res
    got = {}
    after_verdict = []
    for ln in at_rest:
        m = re.match(r"^([DRk]) (-?\d+) ", ln)
        if m:
            got.setdefault(int(m.group(2)), []).append(m.group(1))
            continue
        m = re.match(r"^(?:[A-Za-z] (-?\d+) |X \S+ ([0-9a-f]+)_)", ln)
        if m:
            who_ = int(m.group(1)) if m.group(1) else int(m.group(2), 16)
            if who_ in got:
                after_verdict.append(ln)
    res["stats"]["burst_verdicts_at_quiescence"] = len(got)
    missing = [c for c in ids if c in complete and c not in got]
    # a client withdrawn at the end of the burst had been decided before (its lines came first)
    extra = [c for c in got if c not in complete]
    twice = [c for c, v in got.items() if len(v) > 1]
    wit = {"seed": seed, "n": n, "service": bool(a.get("service")), "burst": True, "after": bool(a.get("after")), "sock": bool(a.get("sock")), "pad4096": bool(a.get("pad4096"))}
    if missing:
        res["viol"].append(("C03", "burst-stuck", "burst-stuck", "%d clients were announced and given everything they need in one burst of %d lines (%d bytes, one write); when the daemon had "
                            "drained its input and gone to sleep, %d of them had no verdict (first: %s)\nfirst input lines: %s" % (
                                n, len(lines), len(data), len(missing), missing[:5], lines[:3] + ["..."] + lines[n:n + 2]), wit))
    if after_verdict:
        res["viol"].append(("C01", "burst-after-verdict", "burst-after-verdict", "after a burst of %d lines the daemon went on about clients it had already decided: %s" % (
            len(lines), after_verdict[:4]), wit))
    if twice or extra:
        res["viol"].append(("C01", "burst-verdicts", "burst-verdicts", "after a burst of %d lines: clients with two verdicts %s, verdicts for clients that were not complete %s" % (
            len(lines), twice[:5], extra[:5]), wit))
    # C06: the drone check is asked about every one of these clients (each is complete or hurried), exactly once
    if a.get("service"):
        asked = {}
        for ln in at_rest:
            m = re.match(r"^X drone\.svc ([0-9a-f]+)_[0-9a-f]+ ", ln)
            if m:
                asked[int(m.group(1), 16)] = asked.get(int(m.group(1), 16), 0) + 1
        res["stats"]["burst_queries_seen"] = sum(asked.values())
        notasked = [c for c in ids if c not in asked]
        if notasked:
            res["viol"].append(("C06", "burst-query-missing", "burst-query-missing", "%d clients were announced and completed in one burst of %d lines with a drone-check service configured; "
                                "when the daemon had drained its input and gone to sleep, no query about %d of them had been written (first: %s)" % (n, len(lines), len(notasked), notasked[:5]), wit))
    # C07: these clients all got the same lines (but for id and address), so the daemon says the same about each of them, whoever came
    # before or after: conversations are compared with id, address and the tag's serial blanked (classes differ by address: compared per rule)
    conv = {}
    ipof = dict((cid, "10.0.%d.%d" % ((k >> 8) & 255, k & 255)) for k, cid in enumerate(ids))
    for ln in at_rest:
        m = re.match(r"^[A-Za-z] (-?\d+) ", ln)
        who_ = int(m.group(1)) if m else None
        if m is None:
            m = re.match(r"^X \S+ ([0-9a-f]+)_[0-9a-f]+ ", ln)
            who_ = int(m.group(1), 16) if m else None
        if who_ is None or who_ not in ipof:
            continue
        norm = re.sub(r"^X (\S+) [0-9a-f]+_[0-9a-f]+ ", r"X \1 TAG ", ln)
        norm = re.sub(r"^([A-Za-z]) -?\d+ ", r"\1 ID ", norm).replace(ipof[who_], "IP")
        conv.setdefault(who_, []).append(norm)
    groups = {}
    for k, cid in enumerate(ids):
        groups.setdefault((use_class and (k >> 8) & 255 == 1, cid in gone), []).append(cid)
    res["stats"]["burst_conversations_compared"] = len(ids)
    for gk, members in groups.items():
        ref = conv.get(members[0], [])
        odd = [c for c in members if conv.get(c, []) != ref]
        if odd:
            res["viol"].append(("C07", "burst-conversation", "burst-conversation", "%d clients were given the same lines in one burst (ids and addresses apart); the daemon's lines about client %d are\n  %s\n"
                                "but about client %d (and %d more)\n  %s" % (n, members[0], "\n  ".join(ref[:6]), odd[0], len(odd) - 1, "\n  ".join(conv.get(odd[0], [])[:6])), wit))
            break
    res["sample"] = {"burst_input_head": lines[:4], "lines": len(lines), "verdicts_when_the_daemon_came_to_rest": len(got)}
    return res


def fold_bursts(chk, prop, tier, scale, b, mult, nq=8, nt=120):
    """Burst runs (half of them over a shared socket with a reader who falls behind) judged for one property."""
    import vcommon
    from vcommon import Violation
    jobs = [dict(build=b, seed=chk.seed * mult + k, n=[40, 120, 300, 700][k % 4], service=(k % 3 != 0), after=(k % 5 == 4), sock=(k % 4 in (1, 2)))
            for k in range(int((nq if tier == "quick" else nt) * scale) or 1)]
    for r in vcommon.pmap(burst_worker, jobs):
        chk.add_case(r["hash"], r["nontrivial"])
        chk.merge_counts(r["stats"])
        for w in r["inconc"]:
            chk.inconc(w)
        for (p, rule, sig, text, wit) in r["viol"]:
            if p == prop:
                chk.violation(Violation(p, rule, sig, text, wit))
    chk.require("burst_runs_on_a_shared_socket", 2 * min(1.0, scale))


def replay_burst(chk, w, prop, tag):
    import prun
    r = burst_worker(dict(build=prun.build_daemon(tag), seed=w["seed"], n=w["n"], service=w["service"], after=w.get("after"), sock=w.get("sock"), pad4096=w.get("pad4096")))
    hit = [v for v in r["viol"] if v[0] == prop]
    for v in hit:
        print(v[3])
    return 1 if hit else 0


def late_scripts(rng, n):
    """Directed scripts around an answer that comes late: the service is asked early (password first), the request timer fires while
    the client is still incomplete (no verdict yet, the soft holds are gone), THEN the answer arrives - as a reply of every kind or
    as an unlinked notice - and only then the rest of the registration data.  Returns [(Config, [events])]."""
    out = []
    for k_ in range(n):
        lp = ["login", "login-ipr", "combined"][k_ % 3]
        cfg = proto.Config([("login.svc", lp)] + ([("drone.svc", "dronecheck")] if k_ % 2 else []), timeout=3600)
        cid = rng.choice([5, 9, 70000])
        tag = "%x_1" % cid
        ev = [{"t": "announce", "id": cid, "ip": "192.0.2.5", "port": 1005}, {"t": "host", "id": cid, "name": "h5.example"}, {"t": "ident", "id": cid, "name": "id5"},
              {"t": "password", "id": cid, "text": "%s acct5 pw" % rng.choice(["+x", "+", "-x"])}]
        if lp == "combined":
            ev += [{"t": "nick", "id": cid, "name": "n5"}]
        ev += [{"t": "timeout", "id": cid}]
        late = [{"t": "unlinked", "svc": "login.svc", "tag": tag, "text": "Server not online"}, {"t": "reply", "svc": "login.svc", "tag": tag, "text": "OK"},
                {"t": "reply", "svc": "login.svc", "tag": tag, "text": "OK acct5"}, {"t": "reply", "svc": "login.svc", "tag": tag, "text": "AGAIN once more"},
                {"t": "reply", "svc": "login.svc", "tag": tag, "text": "MORE prove it"}][(k_ // 3) % 5]
        ev += [late]
        if rng.random() < 0.3:
            ev += [dict(late)]          # ... twice
        rest = [{"t": "nick", "id": cid, "name": "n5"}, {"t": "userinfo", "id": cid, "user": "u5", "real": "R"}]
        rng.shuffle(rest)
        ev += rest
        if k_ % 2:
            ev += [{"t": "reply", "svc": "drone.svc", "tag": tag, "text": "OK"}]
        ev += [{"t": "hurry", "id": cid}, {"t": "timeout", "id": cid}, {"t": "stats"}]
        out.append((cfg, ev))
    return out


def late_jobs(build, seed, props, n, tag="late", per=10):
    rng = random.Random("%s/%d" % (tag, seed))
    scripts = [(c.to_json(), ev) for c, ev in late_scripts(rng, n)]
    return [dict(build=build, scripts=scripts[i:i + per], props=props) for i in range(0, len(scripts), per)]


def reload_jobs(build, seed, props, n, tag="rls", per=10):
    rng = random.Random("%s/%d" % (tag, seed))
    scripts = [(c.to_json(), ev) for c, ev in reload_scripts(rng, n)]
    return [dict(build=build, scripts=scripts[i:i + per], props=props) for i in range(0, len(scripts), per)]


def script_worker(a):
    """Explicit event lists judged by the shared monitor.  a = dict(build, scripts=[(config json, events)], props)."""
    import monitor
    import prun
    import vcommon
    results = []
    for cfgj, events in a["scripts"]:
        cfg = proto.Config.from_json(cfgj)
        tr = prun.replay_events(a["build"], cfg, events)
        viol, stats = monitor.analyze(tr)
        out = []
        seen = set()
        for v in viol:
            if v.prop in a["props"] and v.sig not in seen:
                seen.add(v.sig)
                out.append((v.prop, v.rule, v.sig, "%s\nconfig: %s\nhistory:\n%s" % (v.text, cfg.to_json(), prun.render_trace(tr)),
                            {"config": cfg.to_json(), "events": events}))
        crash = []
        res = tr.result or {}
        unclean = bool(res) and (res.get("exit") != 0 or res.get("sanitizer") or res.get("signal") or res.get("hang"))
        stats["daemon_unclean"] = 1 if unclean else 0
        stats["directed_scripts"] = 1
        if unclean:
            for sn in (res.get("sanitizer") or [["exit", str(res.get("exit"))]]):
                crash.append((str(sn[0]), str(sn[1]) if len(sn) > 1 else "?", str(res.get("stderr_tail", ""))[-1500:], prun.render_trace(tr, 12)))
        results.append({"viol": out, "stats": stats, "crash": crash, "nontrivial": stats["verdicts"] > 0, "sample": None, "nsteps": len(tr.steps),
                        "hash": vcommon.h([cfg.to_json(), [proto.render(e) for e in events]]), "config": cfg.to_json(), "events": events if crash else None})
    return results


def collision_jobs(build, seed, props, n, tag="col", per=10, plain=None):
    rng = random.Random("%s/%d" % (tag, seed))
    scripts = [(c.to_json(), ev) for c, ev in collision_scripts(rng, n)]
    jobs = []
    for i in range(0, len(scripts), per):
        jobs.append(dict(build=(plain if (plain and (i // per) % 2) else build), scripts=scripts[i:i + per], props=props))
    return jobs


def hist_jobs(build, n, seed, props, n_events=120, ids_pool=(3, 4, 5, 6, 17), opts=None, want_class=None, cfg_fn=None, leaks=True,
              tag="h", sample_every=None, reload_share=0.25, vary_addr=0.5):
    """Random-history jobs.  A share of them contains SIGUSR1 reloads that switch between service tables (names keep their
    protocol); re-used ids come back with another address / port with probability vary_addr."""
    jobs = []
    for i in range(n):
        rng = random.Random("%s/%d/%d" % (tag, seed, i))
        cfg = cfg_fn(rng) if cfg_fn else random_config(rng, want_class)
        ids = list(ids_pool)[:rng.choice([3, 4, 5])] if len(ids_pool) >= 5 else list(ids_pool)
        if i % 8 in (2, 7) and len(ids_pool) >= 5:
            # ids that agree in their low 8 / 10 / 16 bits, and ids at the ends of the int range (the table is keyed by int)
            ids = [[5, 261, 1029, 65541], [7, 7 + 1024, 7 + 2048, 7 + (1 << 20)], [-2147483648, 2147483647, -2, 2000000000, -2000000000], [0, 1, 16384, 32768]][(i // 4) % 4]
        o = dict(opts or {})
        o.setdefault("vary_addr", vary_addr)
        w0 = dict(o.get("weights") or {})
        w0.setdefault("noise", 3)
        o["weights"] = w0
        rng2 = random.Random("%s/r/%d/%d" % (tag, seed, i))
        if rng2.random() < reload_share and cfg.modules != ("iauth",):
            w = dict(o.get("weights") or {})
            w["reload"] = 3
            o["weights"] = w
            o["alt_services"] = gen.reload_tables(rng2, cfg.services)
        jobs.append(dict(build=build, config=cfg.to_json(), seed=rng.randrange(1 << 30), n=n_events, ids=ids, props=props,
                         opts=o, leaks=leaks, want_sample=(i < 2)))
    return jobs
