"""C05 - verdict content is faithful to what the services said (DESIGN.md C05)."""
import prun
import vcommon
from checks import pcommon

LEVEL = "exploration"
PROPS = ["C05", "C11"]


def run(chk, tier, scale=1.0):
    b = prun.build_daemon("c05-" + tier)
    n = int((2000 if tier == "quick" else 40000) * scale)
    opts = {"weights": {"reply": 34, "unlinked": 4, "password": 14, "stray": 4, "timeout": 2, "disconnect": 2, "registered": 1, "reannounce": 2}}
    jobs = pcommon.hist_jobs(b, n, chk.seed, PROPS, n_events=100, opts=opts, tag="c05")
    res = vcommon.pmap(prun.hist_worker, jobs, chunksize=8)
    prun.fold(chk, "C05", res)
    # directed scripts around a reload that removes a service which still owes an answer
    for rs in vcommon.pmap(pcommon.script_worker, pcommon.reload_jobs(b, chk.seed, PROPS, int((160 if tier == "quick" else 4000) * scale), tag="rls5")):
        prun.fold(chk, "C05", rs)
    # the module interface no shipped module uses (set address / host name / user name, challenge, kill, accept, holds ...), driven
    # through the fixture module site_api and compared line for line with a model of the core (lib/sitemodel.py)
    import sitemodel
    sitemodel.fold_site(chk, "C05", tier, scale, 1021, ('C05',))
    chk.rule = ("random histories weighted towards replies: OK / OK <acct[:ts[:serial]]> (63/64/65-byte accounts, trailing words) / NO / AGAIN / MORE / junk / unlinked "
                "from login, login-ipr, dronecheck and combined services in every order, texts with doubled/leading/trailing spaces, colons and %-directives, "
                "passwords with every mode string; rules: k text = NO text byte-for-byte in the same step; R iff a login-type service awaited by this instance "
                "vouched that account, D otherwise; class = reference rule evaluator; M only ':+x' and exactly in the step of such a stamp when x or ! was requested; "
                "C lines = relayed MORE/AGAIN texts verbatim to that client only; non-trivial = at least one verdict")
    chk.require("verdicts", 3000 * min(1.0, scale))
    chk.require("relays", 800 * min(1.0, scale))
    chk.require("kills", 400 * min(1.0, scale))
    chk.assumptions += ["weakest reading of the +x clause: judged in the step of the stamp, for modes requested before it",
                        "reply texts are printable ASCII, lines < 510 bytes"]


def replay(chk, rep):
    if rep["witness"].get("site"):
        import sitemodel
        return sitemodel.replay_site(chk, rep["witness"], "C05", ('C05',))
    return prun.replay_witness(chk, rep, PROPS)
