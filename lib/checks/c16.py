"""C16 - config text means what it says (DESIGN.md C16)."""
import random
import re

import confgen
import hconf
import vcommon
from vcommon import Violation

LEVEL = "exploration"
FEATS = confgen.FEATURES


def pick_features(rng):
    f = {k: 1 for k in FEATS if rng.random() < 0.35}
    if not f.get("term_semicolon") and not f.get("term_newline"):
        f[rng.choice(["term_semicolon", "term_newline"])] = 1
    if f.get("one_line"):
        f["term_semicolon"] = 1
    return f


def canon(lines):
    """Keys are case-insensitive: compare dumps with the path component lower-cased."""
    out = []
    for l in lines:
        parts = l.split(" ", 2)
        if len(parts) == 3 and parts[0] == "N":
            parts[1] = parts[1].lower()
        out.append(" ".join(parts))
    return out


def expected(tree):
    return canon(confgen.dump_lines(confgen.normalise(tree)))


def make_case(i, seed, tier):
    rng = random.Random("%d/%d" % (seed, i))
    binary = rng.random() < 0.5
    tree = confgen.gen_tree(rng, depth=rng.choice([1, 2, 3]), width=rng.choice([2, 3, 5]), binary=binary)
    if not tree:
        tree = [(b"a", ("str", b"b"))]
    if i % 25 == 7:
        # a long file: one section with 70-400 small objects (what a table of class rules or log entries looks like), some with lists
        n_ = rng.choice([70, 130, 400])
        tree = tree[:1] + [(b"table", ("obj", [(b"r%03d" % j, ("obj", [(b"class", ("str", b"c%d" % j))] + ([(b"l", ("list", [b"x", b"y"]))] if j % 7 == 0 else [])))
                                               for j in range(n_)]))]
    feats = pick_features(rng)
    return tree, feats, rng.randint(0, 1 << 30)


def _run_render_batch(exe, items):
    """items: list of (tag, tree, feats, rseed) -> dict tag -> (ok, why, file bytes, rec)"""
    b = hconf.Batch(exe, leaks=False)
    files = {}
    try:
        # what a file means must not depend on what was (unsuccessfully) read before it: every third tree is preceded by the load of
        # a file that is rejected in the middle of a list, of a string or of a nested object
        rejected = [b.add_file(x) for x in (b'junk ( q1 q2 )\n', b'junk { inner ( a, b\n', b'junk "unterminated\n', b'a { b { c ( x y ) } }\n')]
        for k, (tag, tree, feats, rseed) in enumerate(items):
            data = confgen.render(tree, feats, rseed)
            files[tag] = data
            p = b.add_file(data)
            pre = ["XLOAD " + confgen.pct(rejected[(k // 3) % len(rejected)])] if k % 3 == 0 else []
            b.case(tag, pre + ["LOAD " + confgen.pct(p), "DUMP"])
        recs, r = b.run()
    finally:
        b.cleanup()
    byname = {rec.name: rec for rec in recs}
    out = {}
    for tag, tree, feats, rseed in items:
        rec = byname.get(tag)
        if rec is None:
            out[tag] = (None, "harness lost the case", files[tag], None)
            continue
        crash = hconf.case_crash_events(rec)
        if crash:
            out[tag] = (False, "crash %s" % (crash,), files[tag], rec)
            continue
        if rec.loads != [0]:
            out[tag] = (False, "conf_read returned %s for a file in the documented syntax" % (rec.loads,), files[tag], rec)
            continue
        got = canon(hconf.strip_logs(rec.dumps[0])) if rec.dumps else None
        want = expected(tree)
        if got != want:
            diff = [l for l in (got or []) if l not in want][:3], [l for l in want if l not in (got or [])][:3]
            out[tag] = (False, "tree read back differs: unexpected %s missing %s" % diff, files[tag], rec)
            continue
        out[tag] = (True, "", files[tag], rec)
    return out


def _worker(a):
    exe, seed, tier, lo, hi = a
    items = []
    meta = {}
    for i in range(lo, hi):
        tree, feats, rseed = make_case(i, seed, tier)
        tag = "t%d" % i
        items.append((tag, tree, feats, rseed))
        meta[tag] = (tree, feats, rseed)
    res = _run_render_batch(exe, items)
    fails = []
    stats = {"trees": 0, "entries": 0, "features_on": 0}
    featcount = {}
    for tag, (ok, why, data, rec) in res.items():
        tree, feats, rseed = meta[tag]
        stats["trees"] += 1
        stats["entries"] += len(expected(tree))
        stats["features_on"] += len(feats)
        for k in feats:
            featcount[k] = featcount.get(k, 0) + 1
        if ok is None:
            fails.append((tag, None, why, data, None))
        elif not ok:
            fails.append((tag, False, why, data, None))
    # attribution: greedy minimisation of the feature set on the failing trees (bounded)
    attributed = []
    for tag, ok, why, data, _ in fails[:6]:
        if ok is None:
            attributed.append((tag, None, why, data, None))
            continue
        tree, feats, rseed = meta[tag]
        cur = dict(feats)
        for k in sorted(feats):
            trial = dict(cur)
            trial.pop(k, None)
            if not trial.get("term_semicolon") and not trial.get("term_newline"):
                continue
            items = [("%s-%s-%d" % (tag, k, s), tree, trial, rseed + s) for s in range(3)]
            r2 = _run_render_batch(exe, items)
            nfail = sum(1 for v in r2.values() if v[0] is False)
            if nfail >= 2:
                cur = trial
        # smallest failing file for the witness
        items = [("%s-min-%d" % (tag, s), tree, cur, rseed + s) for s in range(4)]
        r3 = _run_render_batch(exe, items)
        cand = [(len(v[2]), v[2], v[1]) for v in r3.values() if v[0] is False]
        if cand:
            cand.sort()
            data, why = cand[0][1], cand[0][2]
        attributed.append((tag, False, why, data, sorted(k for k in cur if not k.startswith("term_")) or sorted(cur)))
    return stats, featcount, attributed, len(fails)


FIXED_TREES = [
    [(b"alpha", ("obj", [(b"s", ("str", b"v")), (b"l", ("list", [b"a", b"b", b"c"])), (b"i", ("inaddr", b"host", b"80")),
                         (b"o", ("obj", [(b"x", ("str", b"1")), (b"y", ("list", [b"p", b"q"]))])), (b"e", ("list", []))])),
     (b"top", ("str", b"w"))],
    [(b"a", ("obj", [(b"o", ("obj", [(b"k", ("str", b"has space"))])), (b"l", ("list", [b"one"]))])),
     (b"b", ("obj", [(b"i", ("inaddr", b"::1", b"http")), (b"l", ("list", [b"x y", b"z"]))]))],
    [(b"q", ("obj", [(b"z", ("str", b"\x01\xff\"\\\n")), (b"l2", ("list", [b"", b"\t"])), (b"o", ("obj", [(b"i", ("inaddr", b"h", b"p"))]))])),
     (b"r", ("list", [b"m", b"n"]))],
]


def _pairs_worker(a):
    exe, seed, which = a
    tree = FIXED_TREES[which]
    items = []
    combos = [(f,) for f in FEATS] + [(f, g) for i, f in enumerate(FEATS) for g in FEATS[i + 1:]]
    for ci, combo in enumerate(combos):
        for s in range(3):
            feats = {k: 1 for k in combo}
            if not feats.get("term_semicolon") and not feats.get("term_newline"):
                feats["term_newline" if (s % 2 and "one_line" not in combo) else "term_semicolon"] = 1
            items.append(("p%d-%d-%d" % (which, ci, s), tree, feats, seed * 7919 + s))
    res = _run_render_batch(exe, items)
    bad = []
    for (tag, tree_, feats, rs) in items:
        ok, why, data, rec = res[tag]
        if ok is False and len(bad) < 5:
            bad.append((tag, why, data, sorted(feats)))
    return len(items), bad


# ---- typed values ------------------------------------------------------------------

BOOLS = {"0": 0, "false": 0, "off": 0, "disabled": 0, "no": 0, "1": 1, "true": 1, "on": 1, "enabled": 1, "yes": 1}


def gen_typed(rng):
    """Returns (subtype, text, value) for a parsable text."""
    k = rng.choice(["boolean", "integer", "interval", "volume"])
    if k == "boolean":
        t = rng.choice(sorted(BOOLS))
        return 1, t, BOOLS[t]
    if k == "integer":
        v = rng.choice([0, 1, 7, 321, 65535, 65536, 2 ** 31 - 1, rng.randrange(2 ** 31)])
        if rng.random() < 0.15:
            # integers may be negative (written in decimal with a leading '-')
            v = -rng.choice([1, 5, 40, 321, 65536, 2 ** 31 - 1, 2 ** 31])
            return 2, "%d" % v, v
        return 2, (("0x%x" % v) if rng.random() < 0.4 else ("%d" % v)), v
    if k == "interval":
        total = 0
        text = ""
        for unit, mul, hi in (("y", 365 * 86400, 3), ("d", 86400, 400), ("h", 3600, 30), ("m", 60, 90), ("s", 1, 90)):
            if rng.random() < 0.4:
                n = rng.randint(0, hi)
                text += "%d%s" % (n, unit)
                total += n * mul
        form = rng.random()
        if form < 0.25:
            # trailing h:m:s triple (possibly after y/d components)
            text = "".join(p for p in re.findall(r"\d+[yd]", text))
            total = sum(int(p[:-1]) * (365 * 86400 if p[-1] == "y" else 86400) for p in re.findall(r"\d+[yd]", text))
            h, m, s = rng.randint(0, 23), rng.randint(0, 59), rng.randint(0, 59)
            text += "%02d:%02d:%02d" % (h, m, s)
            total += h * 3600 + m * 60 + s
        elif form < 0.4 or not text:
            n = rng.randint(0, 100000)
            text += "%d" % n
            total += n
        return 4, _pad_components(text), total
    total = 0
    text = ""
    for unit, sh, hi in (("G", 30, 2), ("M", 20, 1000), ("K", 10, 1000), ("B", 0, 1000)):
        if rng.random() < 0.45:
            n = rng.randint(0, hi)
            text += "%d%s" % (n, unit if rng.random() < 0.7 else unit.lower())
            total += n << sh
    if rng.random() < 0.4 or not text:
        n = rng.randint(0, 5000)
        text += "%d" % n
        total += n
    return 5, _pad_components(text), total


def _pad_components(text):
    """Now and then (decided by a hash of the text, so that no random stream moves) the counts in front of unit letters are written
    with leading zeros: `2m010s`, `0100K` - a count is a decimal number however many zeros lead it."""
    import zlib
    if zlib.crc32(text.encode()) % 4:
        return text
    return re.sub(r"(\d+)([ydhmsGMKBgmkb])", lambda m: "%0*d%s" % (len(m.group(1)) + 1 + zlib.crc32(m.group(0).encode()) % 2, int(m.group(1)), m.group(2)), text)


BAD = {1: ["pizza", "2", "maybe"], 2: ["12q", "pizza", "0x", "1 2"], 4: ["123z", "1:2:3:", "1:2:3:4", "pizza", "5 m"],
       5: ["pizza", "12q", "12xyz", "1G2x", "7 k"]}


def _typed_worker(a):
    exe, seed, lo, hi = a
    b = hconf.Batch(exe, leaks=False)
    meta = {}
    try:
        for i in range(lo, hi):
            rng = random.Random("typed/%d/%d" % (seed, i))
            n = rng.randint(2, 6)
            settings = []
            # every third case edits the file IN PLACE (same path and inode) to new values of the same length, the way a file is
            # edited and re-read: the new values must be delivered all the same
            inplace = (i % 3 == 0)
            for j in range(n):
                st, text, val = gen_typed(rng)
                st_d, dtext, dval = st, None, None
                while True:
                    st_d, dtext, dval = gen_typed(rng)
                    if st_d == st:
                        break
                bad = rng.choice(BAD[st]) if (rng.random() < 0.6 and not inplace) else None
                if bad is None:
                    st2, text2, val2 = st, None, None
                    tries = 0
                    while True:
                        st2, text2, val2 = gen_typed(rng)
                        tries += 1
                        if st2 == st and (not inplace or tries > 400 or (len(text2) == len(text) and text2 != text)):
                            break
                else:
                    text2, val2 = bad, None
                settings.append(dict(name="k%d" % j, st=st, dtext=dtext, dval=dval, t1=text, v1=val, t2=text2, v2=val2))
            # in a third of the cases another integer setting, read before all the others, carries a number no integer type holds
            # (its own value is not judged): whatever the C library reports about it must not affect the settings read after it
            big = [(b"a_big", ("str", rng.choice([b"99999999999999999999999", b"0xffffffffffffffffffffffff", b"-99999999999999999999999"])))] if i % 3 == 1 else []
            f1 = confgen.render_conservative([(b"ty", ("obj", big + [(s["name"].encode(), ("str", s["t1"].encode())) for s in settings]))])
            f2 = confgen.render_conservative([(b"ty", ("obj", big + [(s["name"].encode(), ("str", s["t2"].encode())) for s in settings]))])
            p1, p2 = b.add_file(f1), b.add_file(f2)
            reg = (["REG str ty/a_big 2 0"] if big else []) + ["REG str ty/%s %d %s" % (s["name"], s["st"], confgen.pct(s["dtext"])) for s in settings]
            order = rng.choice(["reg-first", "reg-after-load"])
            second = ["COPY " + confgen.pct(p2) + " " + confgen.pct(p1), "LOAD " + confgen.pct(p1)] if inplace else ["LOAD " + confgen.pct(p2)]
            cmds = (reg if order == "reg-first" else []) + ["LOAD " + confgen.pct(p1)] + (reg if order != "reg-first" else []) + \
                   ["DUMP"] + second + ["DUMP"]
            tag = "ty%d" % i
            b.case(tag, cmds)
            meta[tag] = (settings, order, f1, f2)
        recs, r = b.run()
    finally:
        b.cleanup()
    out = []
    nvals = 0
    nbad = 0
    for rec in recs:
        settings, order, f1, f2 = meta[rec.name]
        crash = hconf.case_crash_events(rec)
        if crash:
            out.append(("typed-crash", "%s" % (crash,), {"f1": f1.decode("latin-1"), "f2": f2.decode("latin-1")}))
            continue
        if rec.loads != [0, 0] or len(rec.dumps) != 2:
            out.append(("typed-load", "loads %s" % rec.loads, {"f1": f1.decode("latin-1"), "f2": f2.decode("latin-1")}))
            continue
        for phase, dump in enumerate(rec.dumps):
            parsed = {}
            for ln in dump:
                m = re.match(r'N "ty"/"(k\d+)" str .* t=(\d) parsed=(\S+)$', ln)
                if m:
                    parsed[m.group(1)] = m.group(3)
            for s in settings:
                nvals += 1
                if phase == 0:
                    want = s["v1"]
                    what = "text '%s'" % s["t1"]
                elif s["v2"] is None:
                    nbad += 1
                    want = s["v1"]
                    what = "unparsable text '%s' after '%s'" % (s["t2"], s["t1"])
                else:
                    want = s["v2"]
                    what = "text '%s'" % s["t2"]
                got = parsed.get(s["name"])
                if got != str(want):
                    kind = {1: "boolean", 2: "integer", 4: "interval", 5: "volume"}[s["st"]]
                    rule = "typed-%s-%s" % (kind, "kept" if (phase == 1 and s["v2"] is None) else "value")
                    out.append((rule, "%s setting with %s delivers %s, expected %s (%s)" % (kind, what, got, want, order),
                                {"f1": f1.decode("latin-1"), "f2": f2.decode("latin-1"), "setting": s, "order": order}))
    return out, nvals, nbad, len(recs)


def run(chk, tier, scale=1.0):
    exe = hconf.build_exe("c16-" + tier)
    seed = chk.seed
    ntrees = int((3200 if tier == "quick" else 64000) * scale)
    per = 100
    work = [(exe, seed, tier, lo, min(ntrees, lo + per)) for lo in range(0, ntrees, per)]
    res = vcommon.pmap(_worker, work)
    featcount = {}
    for stats, fc, attributed, nfails in res:
        chk.merge_counts(stats)
        chk.count("trees_failing", nfails)
        for k, v in fc.items():
            featcount[k] = featcount.get(k, 0) + v
        for tag, ok, why, data, minimal in attributed:
            if ok is None:
                chk.inconc("%s: %s" % (tag, why))
                continue
            sig = "layout:" + "+".join(minimal or ["?"])
            chk.violation(Violation("C16", "layout", sig, "%s\nminimal failing feature set: %s\nfile:\n%s" % (
                why, minimal, data.decode("latin-1")), {"file": data.decode("latin-1"), "features": minimal, "case": tag}))
    for i in range(ntrees):
        chk.add_case("t%d" % i, True)
    chk.extra["layout_feature_usage"] = featcount
    # every single feature and all pairs of features on fixed small trees that contain every node kind
    pw = [(exe, seed, k) for k in range(3)]
    for nrun, attributed in vcommon.pmap(_pairs_worker, pw):
        chk.count("feature_pair_renderings", nrun)
        for k in range(nrun):
            chk.evaluations += 1
        for tag, why, data, feats in attributed:
            chk.violation(Violation("C16", "layout", "layout:" + "+".join(feats), "%s\nfeatures: %s\nfile:\n%s" % (
                why, feats, data.decode("latin-1")), {"file": data.decode("latin-1"), "features": feats, "case": tag}))
    # typed values
    ntyped = int((1600 if tier == "quick" else 30000) * scale)
    work = [(exe, seed, lo, min(ntyped, lo + 100)) for lo in range(0, ntyped, 100)]
    for out, nvals, nbad, ncases in vcommon.pmap(_typed_worker, work):
        chk.count("typed_values_judged", nvals)
        chk.count("unparsable_values_judged", nbad)
        for k in range(ncases):
            chk.evaluations += 1
        for rule, text, wit in out[:4]:
            chk.violation(Violation("C16", rule, rule, text, wit))
    chk.nontrivial = set(range(chk.evaluations))
    chk.rule = ("random trees (depth <=3, strings over bytes 1..255 for half of them) rendered with independently toggled layout "
                "features %s, loaded into a fresh process, dump compared with the tree's meaning (later duplicate overrides, repeated "
                "objects merge); plus typed settings (boolean keywords, decimal/hex integers, y/d/h/m/s and h:m:s intervals, G/M/K/B "
                "volumes) registered before or after loading and an unparsable second file that must leave the parsed value in force; "
                "every generated case is distinct (seeded index) and non-trivial (>=1 entry)" % (FEATS,))
    t, f, rs = make_case(0, seed, tier)
    chk.sample({"features": sorted(f), "file": confgen.render(t, f, rs).decode("latin-1")})
    t, f, rs = make_case(1, seed, tier)
    chk.sample({"features": sorted(f), "file": confgen.render(t, f, rs).decode("latin-1")})
    chk.require("trees", 1000)
    chk.require("typed_values_judged", 1000)
    chk.assumptions += ["admissible layouts: entries separated by ';' and/or newline, optional before '}' and at end of file, as in the "
                        "grammar comment of doc/iauthd-c.conf.example; doubled ';' is not generated",
                        "NUL bytes excluded; octal integers and the two-field colon interval form not generated"]


def replay(chk, rep):
    exe = hconf.build_exe("c16-replay")
    w = rep["witness"]
    b = hconf.Batch(exe, leaks=False)
    try:
        if "file" in w:
            p = b.add_file(w["file"].encode("latin-1"))
            b.case("replay", ["LOAD " + confgen.pct(p), "DUMP"])
        else:
            p1, p2 = b.add_file(w["f1"].encode("latin-1")), b.add_file(w["f2"].encode("latin-1"))
            b.case("replay", ["LOAD " + confgen.pct(p1), "DUMP", "LOAD " + confgen.pct(p2), "DUMP"])
        recs, r = b.run()
        print(r.out)
    finally:
        b.cleanup()
    return 1 if (recs and recs[0].loads and any(recs[0].loads)) else 0
