"""C04 - replies affect only the client instance they were asked about (DESIGN.md C04)."""
import random

import gen
import monitor
import proto
import prun
import vcommon
from checks import pcommon
from vcommon import Violation

LEVEL = "exploration"
PROPS = ["C04"]


def comparable(out):
    """Output lines compared between the two runs (class statistics carry wall-clock timings)."""
    return [l for l in out if not l.startswith("S class ")]


def _worker(a):
    b, cfgj, seed, n_events, ids, nsets, kper = a["build"], a["config"], a["seed"], a["n"], a["ids"], a["nsets"], a["kper"]
    rng = random.Random(seed)
    cfg = proto.Config.from_json(cfgj)
    # ---- base run (no strays), recording the view before every step
    s = proto.Session(b, cfg)
    views = []
    try:
        alt = a.get("alt_services") or []
        g = gen.RandomHistory(rng, s, ids, weights={"stray": 0, "reannounce": 6, "disconnect": 6, "registered": 3, "reply": 20, "password": 12, "stats": 3,
                                                     "reload": 3 if alt else 0},
                              reply_kinds=["OK", "OKacct", "NO", "AGAIN", "MORE", "junk"], alt_services=alt)
        done = 0
        tries = 0
        while done < n_events and tries < n_events * 20 and not s.dead:
            tries += 1
            ev = g.pick()
            if ev is None:
                continue
            views.append(gen.View(s.open, s.old_tags, g.answered).freeze())
            s.do(ev)
            done += 1
        views.append(gen.View(s.open, s.old_tags, g.answered).freeze())
        s.do({"t": "stats"})
        s.finish()
    except Exception:
        s.kill()
        raise
    base = s.trace
    res = {"viol": [], "stats": {"base_histories": 1, "stray_lines_inserted": 0, "stray_kinds": {}, "pairs_compared": 0, "steps_compared": 0,
                                 "strays_hitting_live_id": 0, "strays_stale_serial": 0, "strays_malformed_tag": 0, "strays_wrong_service": 0},
           "nontrivial": False, "hash": vcommon.h([cfgj, [proto.render(e) for e, _ in base.steps]]), "inconc": []}
    if not s.res.clean():
        res["inconc"].append("daemon unclean in base run: %s" % (s.res.describe(),))
        return res
    base_events = [e for e, _ in base.steps]
    svcs = sorted(set([n for n, p in cfg.services] + [n for tab in (a.get("alt_services") or []) for n, p in tab]))
    res["stats"]["reloads_in_base_histories"] = sum(1 for e in base_events if e["t"] == "reload")
    for si in range(nsets):
        # choose positions and strays
        inserts = {}
        for _ in range(kper * 3):
            if len(inserts) >= kper:
                break
            p = rng.randrange(len(base_events))
            st = gen.make_stray(rng, views[p], svcs, ids)
            if st is None or p in inserts:
                continue
            inserts[p] = st
        if not inserts:
            continue
        if "sample" not in res:
            res["sample"] = {"services": cfg.services, "base_history_head": [proto.render(e) for e in base_events[:25]],
                             "stray_lines_inserted_before_step": {str(p): proto.render(st) for p, st in sorted(inserts.items())}}
        bad = compare_run(b, cfg, base, base_events, inserts, res["stats"], views)
        if bad:
            # bisect to a single stray
            single = None
            for p, st in sorted(inserts.items()):
                bad1 = compare_run(b, cfg, base, base_events, {p: st}, None, views)
                if bad1:
                    single = (p, st, bad1)
                    break
            if single:
                p, st, bad1 = single
                text = "%s\nstray line inserted before step %d: %s\n%s" % (bad1[1], p, proto.render(st), bad1[2])
                res["viol"].append(("C04", bad1[0], bad1[0] + ":" + stray_class(st, views[p]), text,
                                    {"config": cfgj, "events": base_events[:bad1[3] + 1], "insert_at": p, "stray": st}))
            else:
                text = "%s\n(only the combination of %d strays shows it)\n%s" % (bad[1], len(inserts), bad[2])
                res["viol"].append(("C04", bad[0], bad[0] + ":combination", text,
                                    {"config": cfgj, "events": base_events, "inserts": sorted(inserts.items())}))
            break
    res["nontrivial"] = res["stats"]["strays_hitting_live_id"] > 0
    return res


def stray_class(st, view):
    pt = proto.parse_tag(st["tag"])
    if pt is None:
        return "malformed-tag"
    cur = view.open.get(pt[0])
    if cur is None:
        return "departed-client"
    if cur["tag"] != st["tag"]:
        return "stale-serial"
    return "not-awaited-service"


def compare_run(b, cfg, base, base_events, inserts, stats, views):
    """Run base_events with strays inserted; compare per-step output.  Returns None or (rule, text, detail, step)."""
    s = proto.Session(b, cfg)
    try:
        outs = []
        stray_out = []
        for idx, ev in enumerate(base_events):
            if idx in inserts:
                o = s.do(inserts[idx])
                stray_out.append((idx, inserts[idx], o))
                if stats is not None:
                    stats["stray_lines_inserted"] += 1
                    k = stray_class(inserts[idx], views[idx])
                    stats["stray_kinds"][k] = stats["stray_kinds"].get(k, 0) + 1
                    if k == "malformed-tag":
                        stats["strays_malformed_tag"] += 1
                    elif k == "stale-serial":
                        stats["strays_stale_serial"] += 1
                        stats["strays_hitting_live_id"] += 1
                    elif k == "not-awaited-service":
                        stats["strays_wrong_service"] += 1
                        stats["strays_hitting_live_id"] += 1
            outs.append(s.do(ev))
            if s.dead:
                break
        r = s.finish()
    except Exception:
        s.kill()
        raise
    if stats is not None:
        stats["pairs_compared"] += 1
    if not r.clean():
        return ("crash-with-stray", "daemon failed when stray replies were inserted: %s" % (r.describe(),), "", len(outs) - 1)
    for (idx, st, o) in stray_out:
        if o:
            return ("stray-output", "a reply that is not owed produced output %s" % (o,), "", idx)
    for idx, (ev, want) in enumerate(base.steps):
        if stats is not None:
            stats["steps_compared"] += 1
        got = outs[idx] if idx < len(outs) else None
        if got is None or comparable(got) != comparable(want):
            detail = "step %d %r\n  without the stray: %s\n  with the stray:    %s" % (idx, proto.render(ev), comparable(want), comparable(got or []))
            return ("later-difference", "inserting a reply that is not owed changed later behaviour", detail, idx)
    return None


def _wrap_worker(a):
    """Serial arithmetic: a client is asked about and leaves; N-1 other connections come and go; the id is taken again (serial N+1)
    and asked about at the same service; then the answer meant for the FIRST holder arrives.  N = 2^8, 2^12, 2^16: a serial that is
    stored, printed or compared with fewer bits makes the two tags equal."""
    b, n, seed = a["build"], a["n"], a["seed"]
    rng = random.Random(seed)
    cfg = proto.Config([("login.svc", "login")], timeout=3600)
    cid = rng.choice([5, 9, 300])
    res = {"viol": [], "stats": {"serial_wrap_scenarios": 1, "serial_wrap_filler_connections": 0, "stray_lines_inserted": 0, "stray_kinds": {}, "pairs_compared": 0,
                                 "steps_compared": 0, "strays_hitting_live_id": 0, "strays_stale_serial": 0, "strays_malformed_tag": 0, "strays_wrong_service": 0},
           "nontrivial": True, "hash": vcommon.h(["wrap", n, seed]), "inconc": []}
    s = proto.Session(b, cfg)
    try:
        s.do({"t": "announce", "id": cid, "ip": "192.0.2.1", "port": 1001})
        o1 = s.do({"t": "password", "id": cid, "text": "+x alice pw"})
        s.do({"t": "disconnect", "id": cid})
        filler = []
        for k in range(n - 1):
            filler += ["%d C 192.0.2.9 2000 10.0.0.1 6667" % (cid + 1), "%d D" % (cid + 1)]
        outs = []
        for k0 in range(0, len(filler), 40000):
            outs += [o for o in s.d.steps(filler[k0:k0 + 40000]) if o]
        res["stats"]["serial_wrap_filler_connections"] = n - 1
        noisy = [o for o in outs if o]
        s.do({"t": "announce", "id": cid, "ip": "192.0.2.2", "port": 1002})
        o2 = s.do({"t": "password", "id": cid, "text": "+x bob pw"})
        old_tag = "%x_1" % cid
        new_tag = "%x_%x" % (cid, n + 1)
        stray = {"t": "reply", "svc": "login.svc", "tag": old_tag, "text": "OK alice"}
        o3 = s.do(stray)
        res["stats"]["stray_lines_inserted"] = 1
        res["stats"]["strays_stale_serial"] = 1
        res["stats"]["strays_hitting_live_id"] = 1
        o4 = s.do({"t": "reply", "svc": "login.svc", "tag": new_tag, "text": "OK bob"})
        o5 = s.do({"t": "hurry", "id": cid})
        r = s.finish()
    except Exception:
        s.kill()
        raise
    wit = {"wrap": n, "seed": seed}
    if not r.clean() or noisy:
        res["inconc"].append("serial-wrap scenario: daemon unclean or filler connections produced output (%s, %s)" % (r.describe(), noisy[:2]))
        return res
    q2 = [l for l in (o2 or []) if l.startswith("X login.svc ")]
    if not q2 or (" " + new_tag + " ") not in q2[0]:
        res["inconc"].append("serial-wrap scenario: expected the newcomer's query to carry tag %s, saw %s" % (new_tag, o2))
    if o3:
        res["viol"].append(("C04", "stray-output", "stray-output:serial-wrap", "after %d connections id %d is held by a newcomer (tag %s); the late answer to the first holder "
                            "(%s) produced %s" % (n, cid, new_tag, proto.render(stray), o3), wit))
    elif not any(l.startswith("R %d " % cid) and l.endswith(" bob") or (" bob " in l and l.startswith("R %d " % cid)) for l in (o4 or []) + (o5 or [])):
        res["viol"].append(("C04", "later-difference", "later-difference:serial-wrap", "after %d connections the newcomer on id %d should end as account bob; saw %s / %s" % (
            n, cid, o4, o5), wit))
    return res


def _slot_worker(a):
    """Directed: a service is removed by a reload while a client still awaits it, a later reload adds another service
    (which may land in the freed slot); a reply from the newcomer bearing the waiting client's tag is not owed."""
    b, seed = a["build"], a["seed"]
    rng = random.Random(seed)
    names = rng.sample(["login.svc", "drone.svc", "ipr.svc", "combo.svc", "Alpha.Net", "zeta.example.org"], 4)
    A, keep, B, C = names
    pA = rng.choice(["login", "login-ipr", "combined"])
    t0 = [(A, pA), (keep, "dronecheck")]
    t1 = [(keep, "dronecheck")]
    t2 = [(keep, "dronecheck"), (B, rng.choice(proto.PROTOS))] + ([(C, "login")] if rng.random() < 0.5 else [])
    cfg = proto.Config(t0, timeout=3600)
    cid = rng.choice([3, 5, 9])
    pre = [{"t": "announce", "id": cid, "ip": "1.2.3.4", "port": 1000}, {"t": "password", "id": cid, "text": "+x alice pw"},
           {"t": "nick", "id": cid, "name": "nick"}]
    if rng.random() < 0.5:
        pre += [{"t": "host", "id": cid, "name": "h.example"}, {"t": "ident", "id": cid, "name": "id"}]
    # variant with two clients waiting on A: between the reloads A gives its (owed) answer to the first of them - whatever
    # bookkeeping that triggers, the second client still waits on A only, and nothing B says is owed to it
    two = rng.random() < 0.6 or bool(a.get("refused_waiter"))
    cid2 = cid + 1
    if two:
        if pA == "combined":
            pA = "login-ipr"
            t0 = [(A, pA), (keep, "dronecheck")]
            cfg = proto.Config(t0, timeout=3600)
        if not any(e["t"] == "host" for e in pre):
            pre += [{"t": "host", "id": cid, "name": "h.example"}, {"t": "ident", "id": cid, "name": "id"}]
        pre += [{"t": "announce", "id": cid2, "ip": "1.2.3.5", "port": 1001}, {"t": "password", "id": cid2, "text": "+x bob pw"},
                {"t": "host", "id": cid2, "name": "h3.example"}, {"t": "ident", "id": cid2, "name": "id2"}]
        mid_reply = [{"t": "reply", "svc": A, "tag": "%x_2" % cid2, "text": rng.choice(["NO go away", "OK", "OK bob", "AGAIN retry"])}] if rng.random() < 0.6 else \
                    [{"t": "unlinked", "svc": A, "tag": "%x_2" % cid2, "text": "Server not online"}]
        if rng.random() < 0.35:
            # ... or is challenged by A and leaves in the middle of that dialogue
            mid_reply = [{"t": "reply", "svc": A, "tag": "%x_2" % cid2, "text": "MORE prove it"}, {"t": rng.choice(["disconnect", "registered"]), "id": cid2}]
        if a.get("refused_waiter"):
            # (every sixth scenario, whatever the dice say: the second waiter is refused by the retired A between the reloads)
            mid_reply = [{"t": "reply", "svc": A, "tag": "%x_2" % cid2, "text": "NO go away"}]
    else:
        mid_reply = []
    mid = [{"t": "reload", "services": t1}] + mid_reply + [{"t": "reload", "services": t2}]
    post = [{"t": "userinfo", "id": cid, "user": "u", "real": "r"}, {"t": "host", "id": cid, "name": "h2.example"}, {"t": "ident", "id": cid, "name": "id"},
            {"t": "stats"}, {"t": "hurry", "id": cid}, {"t": "stats"}]
    if two:
        post += [{"t": "hurry", "id": cid2}, {"t": "stats"}]
    events = pre + mid + post
    ins_at = len(pre) + len(mid)
    res = {"viol": [], "stats": {"slot_reuse_scenarios": 1, "stray_lines_inserted": 0, "stray_kinds": {}, "pairs_compared": 0, "steps_compared": 0,
                                 "strays_hitting_live_id": 0, "strays_stale_serial": 0, "strays_malformed_tag": 0, "strays_wrong_service": 0},
           "nontrivial": True, "hash": vcommon.h(["slot", seed]), "inconc": []}
    base = prun.replay_events(b, cfg, events)
    if base.result and (base.result["exit"] != 0 or base.result["sanitizer"]):
        res["inconc"].append("daemon unclean in base run: %s" % (base.result,))
        return res
    tag = None
    for ev, out in base.steps:
        for ln in out:
            c = proto.classify(ln)
            if c and c["kind"] == "xquery":
                tag = c["tag"]
    if tag is None:
        res["inconc"].append("slot scenario sent no query")
        return res
    if two:
        tag = "%x_1" % cid      # the first client: still waiting on the retired A when B appears
        res["stats"]["slot_reuse_two_waiters"] = 1
    views = [gen.View({cid: {"tag": tag, "awaiting": {A}}}, [], [])] * (len(events) + 1)
    for svc in [B] + ([C] if len(t2) > 2 else []):
        for text in ("OK mallory:666", "NO go away", "MORE prove it", "OK"):
            st = {"t": "reply", "svc": svc, "tag": tag, "text": text}
            bad = compare_run(b, cfg, base, events, {ins_at: st}, res["stats"], views)
            if bad:
                res["viol"].append(("C04", bad[0], bad[0] + ":service-added-by-reload", "%s\nstray line %s inserted after the reloads %s -> %s -> %s\n%s" % (
                    bad[1], proto.render(st), t0, t1, t2, bad[2]), {"config": cfg.to_json(), "events": events, "insert_at": ins_at, "stray": st}))
                return res
    return res


def _retired_worker(a):
    """Directed: a reply that bears a name the daemon no longer has.
    variant 0: service A answers a client (its name is the last one a reply was matched to); the client leaves; one reload retires
      A with nobody waiting, the next adds B (which may take A's place in the table); a second client waits on B; a reply from A -
      a name that is not configured any more - bearing that client's tag is not owed.
    variant 1: a client waits on A; a reload respells A's type as a word that is no protocol (the entry is as good as removed, but
      A still owes the client its answer) and adds B behind it; a reply from B, which was never asked, bearing the client's tag is
      not owed; A's own answer afterwards is."""
    b, seed, variant = a["build"], a["seed"], a["variant"] % 2
    rng = random.Random(seed)
    A, B = rng.choice([("login.svc", "other.svc"), ("a.example", "b.example"), ("Alpha.Net", "zeta.example.org"), ("m.svc", "n.svc")])
    pA = rng.choice(["login", "login-ipr"])
    data1 = [{"t": "host", "id": 5, "name": "h.example"}, {"t": "ident", "id": 5, "name": "id"}]
    if variant == 0:
        cfg = proto.Config([(A, pA)], timeout=3600)
        pB = rng.choice(["login", "login-ipr"])
        pre = [{"t": "announce", "id": 5, "ip": "1.2.3.4", "port": 1000}] + data1 + [{"t": "password", "id": 5, "text": "+x alice pw"},
               {"t": "reply", "svc": A, "tag": "5_1", "text": rng.choice(["AGAIN retry", "OK alice", "OK"])}, {"t": rng.choice(["disconnect", "registered"]), "id": 5},
               {"t": "reload", "services": []}, {"t": "reload", "services": [[B, pB]]},
               {"t": "announce", "id": 6, "ip": "6.6.6.6", "port": 2000}, {"t": "host", "id": 6, "name": "h6.example"}, {"t": "ident", "id": 6, "name": "id6"},
               {"t": "password", "id": 6, "text": "+x bob pw"}]
        post = [{"t": "stats"}, {"t": "reply", "svc": B, "tag": "6_2", "text": "OK bob"}, {"t": "nick", "id": 6, "name": "n6"}, {"t": "userinfo", "id": 6, "user": "u", "real": "r"},
                {"t": "hurry", "id": 6}, {"t": "stats"}]
        tag, stray_svc, waiting = "6_2", A, (6, B)
    else:
        cfg = proto.Config([(A, pA)], timeout=3600)
        pre = [{"t": "announce", "id": 5, "ip": "1.2.3.4", "port": 1000}] + data1 + [{"t": "password", "id": 5, "text": "+x alice pw"},
               {"t": "reload", "services": [[A, rng.choice(["logn", "login2", "dronechek", "LOGIN-IPRR"])], [B, "dronecheck"]]}]
        if rng.random() < 0.5:
            pre += [{"t": "reload", "services": [[B, "dronecheck"], ["c.added", "login"]]}]
        post = [{"t": "stats"}, {"t": "reply", "svc": A, "tag": "5_1", "text": "OK alice"}, {"t": "nick", "id": 5, "name": "n5"}, {"t": "userinfo", "id": 5, "user": "u", "real": "r"},
                {"t": "hurry", "id": 5}, {"t": "reply", "svc": B, "tag": "5_1", "text": "OK"}, {"t": "stats"}]
        tag, stray_svc, waiting = "5_1", B, (5, A)
    events = pre + post
    ins_at = len(pre)
    res = {"viol": [], "stats": {"retired_name_scenarios": 1, "stray_lines_inserted": 0, "stray_kinds": {}, "pairs_compared": 0, "steps_compared": 0,
                                 "strays_hitting_live_id": 0, "strays_stale_serial": 0, "strays_malformed_tag": 0, "strays_wrong_service": 0},
           "nontrivial": True, "hash": vcommon.h(["retired", seed, variant]), "inconc": []}
    base = prun.replay_events(b, cfg, events)
    if base.result and (base.result["exit"] != 0 or base.result["sanitizer"]):
        res["inconc"].append("daemon unclean in base run: %s" % (base.result,))
        return res
    asked = [c["svc"] for ev, out in base.steps for c in [proto.classify(l) for l in out] if c and c["kind"] == "xquery" and c["tag"] == tag]
    if waiting[1] not in asked:
        res["inconc"].append("retired-name scenario: %s was not asked about the client (%s)" % (waiting[1], asked))
        return res
    views = [gen.View({waiting[0]: {"tag": tag, "awaiting": {waiting[1]}}}, [], [])] * (len(events) + 1)
    for text in ("NO go away", "OK mallory:666", "MORE prove it", "OK", "AGAIN retry"):
        for kind in ("reply", "unlinked"):
            st = {"t": kind, "svc": stray_svc, "tag": tag, "text": text}
            bad = compare_run(b, cfg, base, events, {ins_at: st}, res["stats"], views)
            if bad:
                res["viol"].append(("C04", bad[0], bad[0] + (":retired-name" if variant == 0 else ":never-asked-after-type-error"), "%s\nstray line %s inserted at step %d of\n%s\n%s" % (
                    bad[1], proto.render(st), ins_at, "\n".join("  " + proto.render(e) for e in events), bad[2]), {"config": cfg.to_json(), "events": events, "insert_at": ins_at, "stray": st}))
                return res
            if kind == "unlinked":
                break
    return res


def _report_worker(a):
    """Directed: a reload adds a service whose name sorts before the one a client is waiting on; an operator then asks for the
    statistics / the configuration report; a reply from the newcomer - which was never asked about the client - bearing the
    client's tag is not owed and changes nothing."""
    b, seed = a["build"], a["seed"]
    rng = random.Random(seed)
    old, new = rng.choice([("m.svc", "a.svc"), ("zeta.example.org", "Alpha.Net"), ("login.svc", "drone.svc")])
    cfg = proto.Config([(old, rng.choice(["login", "login-ipr"]))], timeout=3600)
    t1 = [(old, cfg.services[0][1]), (new, "dronecheck")]
    cid = rng.choice([3, 5, 9])
    pre = [{"t": "announce", "id": cid, "ip": "1.2.3.4", "port": 1000}, {"t": "host", "id": cid, "name": "h.example"}, {"t": "ident", "id": cid, "name": "id"},
           {"t": "password", "id": cid, "text": "+x alice pw"}, {"t": "reload", "services": t1}]
    pre += [rng.choice([{"t": "stats"}, {"t": "noise", "line": "-1 ? config"}, {"t": "noise", "line": "-1 ? stats2"}]) for _ in range(rng.choice([1, 2]))]
    post = [{"t": "stats"}, {"t": "reply", "svc": old, "tag": "%x_1" % cid, "text": rng.choice(["OK alice", "NO wrong password"])},
            {"t": "nick", "id": cid, "name": "nick"}, {"t": "userinfo", "id": cid, "user": "u", "real": "r"}, {"t": "hurry", "id": cid}, {"t": "stats"}]
    events = pre + post
    ins_at = len(pre)
    res = {"viol": [], "stats": {"report_then_stray_scenarios": 1, "stray_lines_inserted": 0, "stray_kinds": {}, "pairs_compared": 0, "steps_compared": 0,
                                 "strays_hitting_live_id": 0, "strays_stale_serial": 0, "strays_malformed_tag": 0, "strays_wrong_service": 0},
           "nontrivial": True, "hash": vcommon.h(["report", seed]), "inconc": []}
    base = prun.replay_events(b, cfg, events)
    if base.result and (base.result["exit"] != 0 or base.result["sanitizer"]):
        res["inconc"].append("daemon unclean in base run: %s" % (base.result,))
        return res
    tag = "%x_1" % cid
    views = [gen.View({cid: {"tag": tag, "awaiting": {old}}}, [], [])] * (len(events) + 1)
    for text in ("OK mallory:666", "NO go away", "MORE prove it", "OK"):
        st = {"t": "reply", "svc": new, "tag": tag, "text": text}
        bad = compare_run(b, cfg, base, events, {ins_at: st}, res["stats"], views)
        if bad:
            res["viol"].append(("C04", bad[0], bad[0] + ":after-report", "%s\nstray line %s inserted after a reload that added %s and a report request\n%s" % (
                bad[1], proto.render(st), new, bad[2]), {"config": cfg.to_json(), "events": events, "insert_at": ins_at, "stray": st}))
            return res
    return res


def _many_stray_worker(a):
    """More services in the file than the daemon takes on (it refuses those its per-client masks have no bit for): a reply that
    carries a live tag but comes from a refused service - or from any service the client is not waiting on - changes nothing."""
    b, n, seed = a["build"], a["n"], a["seed"]
    rng = random.Random(seed)
    protos = ["login", "dronecheck", "login-ipr", "combined"]
    svcs = [("s%02d.example.net" % k, protos[(k + seed) % 4] if seed % 2 else "login") for k in range(n)]
    rng.shuffle(svcs)
    cfg = proto.Config(svcs, timeout=3600)
    taken = set(x[0] for x in sorted(svcs, key=lambda x: x[0].lower())[:32])
    refused = [x[0] for x in svcs if x[0] not in taken]
    s = proto.Session(b, cfg, leaks=True)
    nstray = 0
    try:
        for cid in (5, 6, 7, 8):
            evs = [{"t": "announce", "id": cid, "ip": "192.0.2.%d" % cid, "port": 1000 + cid},
                   {"t": "host", "id": cid, "name": "h%d.example" % cid}, {"t": "ident", "id": cid, "name": "id%d" % cid},
                   {"t": "nick", "id": cid, "name": "nick%d" % cid}, {"t": "userinfo", "id": cid, "user": "u%d" % cid, "real": "Real %d" % cid},
                   {"t": "password", "id": cid, "text": "%s acct%d pw%d" % (rng.choice(["+x", "+!", "-x"]), cid, cid)}]
            tail = evs[1:]
            if cid % 2 == 0:
                tail = tail[:-1]        # no password: only the services that need none are asked
            rng.shuffle(tail)
            for ev in evs[:1] + tail:
                s.do(ev)
            st = s.open.get(cid)
            while st and st["awaiting"] and cid in s.open and not s.dead:
                if rng.random() < 0.5:
                    # not owed: from a service the daemon refused, or from one that has answered already
                    cands = refused + [x for x in taken if x not in st["awaiting"]]
                    sv = rng.choice(refused if rng.random() < 0.7 else cands)
                    s.do({"t": "reply", "svc": sv, "tag": st["tag"], "text": rng.choice(["OK intruder", "NO go away", "MORE prove it", "AGAIN x", "OK"])} if rng.random() < 0.85
                         else {"t": "unlinked", "svc": sv, "tag": st["tag"], "text": "Server not online"})
                    nstray += 1
                else:
                    sv = rng.choice(sorted(st["awaiting"]))
                    s.do({"t": "reply", "svc": sv, "tag": st["tag"], "text": rng.choice(["OK", "OK", "OK", "OK real%d" % cid])})
                st = s.open.get(cid)
            if cid in s.open:
                s.do({"t": "hurry", "id": cid})
        s.do({"t": "stats"})
        s.finish()
    except Exception:
        s.kill()
        raise
    r = prun.post(s, b, cfg, ["C04", "C02", "C05"], seed, do_shrink=False, want_sample=False)
    r["viol"] = [("C04", rule, sig, text, wit) for (p, rule, sig, text, wit) in r["viol"]]
    r["stats"] = {"many_service_tables": 1, "strays_next_to_full_table": nstray, "stray_kinds": {}}
    r["inconc"] = ["daemon crashed in a many-service table run (%s in %s); see C08" % (k_, f_) for (k_, f_, e_, t_) in r["crash"] if k_ != "leak"]
    return r


def run(chk, tier, scale=1.0):
    b = prun.build_daemon("c04-" + tier)
    n = int((320 if tier == "quick" else 5000) * scale)
    jobs = []
    for i in range(n):
        rng = random.Random("c04/%d/%d" % (chk.seed, i))
        cfg = pcommon.random_config(rng, want_class=(rng.random() < 0.25))
        if not cfg.services:
            cfg.services = [("login.svc", "login")]
        alt = None
        if i % 3 == 0:
            # histories that also reload the service table (remove a service that is still awaited, add another, change protocols)
            names = [n for n, p in cfg.services]
            extra = [n for n in ("login.svc", "drone.svc", "ipr.svc", "combo.svc", "Alpha.Net", "zeta.example.org") if n not in names]
            alt = [list(cfg.services)]
            for _ in range(3):
                tab = [x for x in cfg.services if rng.random() < 0.6]
                for n in rng.sample(extra, min(len(extra), rng.choice([0, 1, 2]))):
                    tab.append((n, rng.choice(proto.PROTOS)))
                alt.append(tab)
        jobs.append(dict(build=b, config=cfg.to_json(), seed=rng.randrange(1 << 30), n=90, ids=([3, 4, 5][:rng.choice([2, 3])] if i % 5 else [[2147483647, -2, 7], [-2147483648, 5, 2000000000], [5, 1029, 65541]][(i // 5) % 3]),
                         nsets=4 if tier == "quick" else 8, kper=8, alt_services=alt))
    results = vcommon.pmap(_worker, jobs, chunksize=2)
    results += vcommon.pmap(_slot_worker, [dict(build=b, seed=chk.seed * 1000 + k, refused_waiter=(k % 6 == 5)) for k in range(int((24 if tier == "quick" else 400) * scale))])
    results += vcommon.pmap(_retired_worker, [dict(build=b, seed=chk.seed * 3000 + k, variant=k) for k in range(int((12 if tier == "quick" else 200) * scale) or 2)])
    results += vcommon.pmap(_report_worker, [dict(build=b, seed=chk.seed * 1000 + 500 + k) for k in range(int((12 if tier == "quick" else 200) * scale) or 1)])
    results += vcommon.pmap(_wrap_worker, [dict(build=b, n=n_, seed=chk.seed * 10 + k) for k, n_ in enumerate([256, 4096, 65536, 65536] + ([1 << 20] if tier != "quick" else []))])
    import build as buildmod
    bplain = buildmod.build_daemon(buildmod.fresh_dir("c04p-" + tier), "plain")
    results += vcommon.pmap(_many_stray_worker, [dict(build=(bplain if k % 2 else b), n=n_, seed=chk.seed * 100 + k)
                                                 for k, n_ in enumerate(([33, 34, 36, 40, 33, 35, 38, 64] * (1 if tier == "quick" else 12)))])
    for r in results:
        chk.add_case(r["hash"], r["nontrivial"])
        if r.get("sample"):
            chk.sample(r["sample"], limit=2)
        kinds = r["stats"].pop("stray_kinds")
        chk.merge_counts(r["stats"])
        for k, v in kinds.items():
            chk.count("stray_" + k, v)
        for w in r["inconc"]:
            chk.inconc(w)
        for (p, rule, sig, text, wit) in r["viol"]:
            chk.violation(Violation(p, rule, sig, text, wit))
    chk.rule = ("differential: a random multi-client history with heavy id reuse (2-3 ids) is run once, then again with 8 replies / unlinked notices inserted that are "
                "NOT owed at their position (stale serial of a departed instance of a reused id, departed client, live tag with an unknown / unconfigured / already answered / "
                "differently-cased service, a service that a SIGUSR1 reload added after the query went to another one, malformed tags %x %x_ zz_1 %x_1x %x_1_2 ...), every reply kind; the step of the inserted line must produce no output and every "
                "later step exactly the same output (statistics lines included, class timing lines excluded); on a difference the run is bisected to one stray; "
                "tables of 33-64 services (the daemon takes on 32): replies with a live tag from the refused ones, on the sanitized and the plain build (monitor); distinct = base history; non-trivial = at least one stray named a live id")
    chk.require("stray_lines_inserted", 5000 * min(1.0, scale))
    chk.require("strays_stale_serial", 300 * min(1.0, scale))
    chk.require("strays_wrong_service", 300 * min(1.0, scale))
    chk.assumptions += ["tags that strtol/strtoul base 16 would read as a live awaited (id, serial) pair are never used as strays"]


def replay(chk, rep):
    b = prun.build_daemon("c04-replay")
    w = rep["witness"]
    if "wrap" in w:
        r = _wrap_worker(dict(build=b, n=w["wrap"], seed=w["seed"]))
        for v in r["viol"]:
            print(v[3])
        return 1 if r["viol"] else 0
    cfg = proto.Config.from_json(w["config"])
    events = w["events"]
    base = prun.replay_events(b, cfg, events)
    if "stray" not in w:
        print("combination witness; re-run the check")
        return 1
    ins = {w["insert_at"]: w["stray"]}
    views = [gen.View({}, [], [])] * (len(events) + 1)
    bad = compare_run(b, cfg, base, events, ins, None, views)
    print(bad)
    return 1 if bad else 0
