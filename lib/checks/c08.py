"""C08 - arbitrary input cannot crash or derail the daemon (DESIGN.md C08)."""
import os
import random
import re

import daemon
import gen
import proto
import prun
import vcommon
from checks import c09
from vcommon import Violation

LEVEL = "exploration"
PROPS = ["C08"]

CMDS = "CDNdPUunHTEMXx?"
WD = 12.0   # watchdog per batch run (seconds); a firing is reported as a hang only after a confirmation run


def comparable(out):
    """Class statistics lines carry wall-clock timings."""
    return [l for l in out if not l.startswith("S class ")]


def good_stream(rng, nclients=None):
    """(config, lines, ids): a well-formed multi-client history with predicted tags."""
    services = gen.service_tables(rng, rng.choice([1, 2, 3]))
    use_class = rng.random() < 0.3
    rules = [{"name": "r1", "class": "c1", "trust_username": "yes"}, {"name": "r2", "address": "10.*"}] if use_class else []
    cfg = proto.Config(services, timeout=rng.choice([None, 3600]), rules=rules, use_class=use_class)
    n = nclients or rng.randint(3, 10)
    streams = []
    ids = []
    for k in range(n):
        cid = rng.choice([k + 1, 500 + k, 70000 + k]) if (k or rng.random() < 0.7) else 0
        ids.append(cid)
        streams.append((cid, rng.choice(gen.IPS4 + gen.IPS6), rng.choice([0, 1024, 65535])))
    order = []
    for idx in range(n):
        order += [idx] * 12
    rng.shuffle(order)
    serial = 0
    pending = {}
    lines = []
    for idx in order:
        cid, addr, port = streams[idx]
        if idx not in pending:
            serial += 1
            pending[idx] = c09.client_lines(rng, cid, addr, port, serial, services)
        if pending[idx]:
            lines.append(pending[idx].pop(0))
        if rng.random() < 0.04:
            lines.append(rng.choice(["-1 ? stats", "-1 ? config", "-1 M irc.example.net 20"]))
    for idx in pending:
        lines += pending[idx]
    lines.append("-1 ? stats")
    return cfg, lines, ids


def mutate(rng, lines, ids):
    """Grammar-aware hostile mutations of a good stream; returns list of byte strings (lines without terminator) and a joiner."""
    out = []
    for ln in lines:
        r = rng.random()
        b = ln.encode("latin-1")
        mx = re.match(r"^(-1 [Xx] \S+ \S+) :", ln)
        if mx and rng.random() < 0.3:
            # a reply whose text is a bare or clipped verb, a word that begins like one, or nothing
            out.append((mx.group(1) + rng.choice([" :", " :NO", " :OK", " :MORE", " :AGAIN", " :N", " :NOPE", " :NOTICE x", " :MOREOVER", " :AGAINST", " :OK ", " :NO ", " :MORE ", " :AGAIN ",
                                                 "", " :A", " :MOR", " :AGAI", " :O"])).encode("latin-1"))
            continue
        if r < 0.55:
            out.append(b)
            continue
        toks = ln.split(" ")
        k = rng.random()
        if k < 0.25 and len(toks) > 1:
            # drop parameters: keep the first j tokens (including the bare-id line and every command without its argument)
            j = rng.randint(1, len(toks) - 1)
            out.append(" ".join(toks[:j]).encode("latin-1"))
            if rng.random() < 0.3:
                out.append(b)
        elif k < 0.32:
            out.append((" ".join(toks[:2] + ["a%d" % i for i in range(rng.choice([0, 1, 13, 14, 15, 16, 17, 40]))])).encode("latin-1"))
        elif k < 0.40:
            out.append(rng.choice([b"", b" ", b"   ", b"\t", b"\r", b" \r", b":", b" :", b"5 :", b"-1", b"-1 ", b"5", b"5 ", b"5  ", b"-", b"+", b"0x10 C", b"::", b"5 : C"]))
        elif k < 0.48:
            pos = rng.randrange(len(b) + 1)
            out.append(b[:pos] + bytes([rng.choice([0, 1, 127, 128, 255, 13, 9, 58, 32])]) + b[pos:])
        elif k < 0.54:
            big = rng.choice([b"A", b" x", b":", b"\xff"]) * rng.choice([600, 5000, 70000])
            out.append(toks[0].encode() + b" " + rng.choice([b"N ", b"n ", b"P :", b"U u :", b"C ", b"u ", b"X svc ", b"? "]) + big)
        elif k < 0.64:
            newid = rng.choice(["2147483647", "-2147483648", "2147483648", "4294967295", "4294967296", "9223372036854775807", "9223372036854775808",
                                "99999999999999999999999", "-99999999999999999999999", "0", "-0", "+5", "0005", "5x", "x5", "1e3", "0x7", " 5"])
            out.append((newid + " " + " ".join(toks[1:])).encode("latin-1"))
        elif k < 0.72:
            cid = rng.choice(ids + [-1, -1, 0])
            c = rng.choice(CMDS)
            args = rng.choice(["", " a", " a b", " a b c d", " :", " :x y", " a :b c", " 1.2.3.4 5 6.7.8.9 10", " svc 5_1 :OK", " svc 5_1", " svc"])
            out.append(("%d %s%s" % (cid, c, args)).encode("latin-1"))
        elif k < 0.80:
            tag = rng.choice(["", "5", "5_", "_1", "5_1x", "5_1_2", "zz_1", "ffffffffffffffffffff_1", "5_ffffffffffffffffffffff", "-5_1", "+5_+1", "0x5_0x1",
                              " 5_1", "5 _1", "%s_%n", "5_1 ", "_", "__"])
            svc = rng.choice(["login.svc", "drone.svc", "nosuch", "", "*"])
            out.append(("-1 %s %s %s :%s" % (rng.choice("Xx"), svc, tag, rng.choice(["OK", "OK a", "NO x", "MORE y", "", "NO", "AGAIN"]))).encode("latin-1"))
        elif k < 0.86:
            out.append(b.replace(b" ", rng.choice([b"  ", b"\t", b" \t ", b"\x0b"]), rng.choice([1, 2, 5])))
        elif k < 0.92:
            out.append(bytes(rng.randrange(256) for _ in range(rng.choice([1, 5, 40, 300]))).replace(b"\n", b"."))
        else:
            out.append(b)
            out.append(b)
    return out


def join(rng, blines):
    seps = [b"\n", b"\n", b"\n", b"\r\n", b"\r\n", b"\n\n", b"\r\r\n", b"\n\r"]
    return b"".join(l + rng.choice(seps) for l in blines)


VALGRIND = ("valgrind", "-q", "--error-exitcode=96", "--num-callers=14", "--track-origins=yes")


def _stream_worker(a):
    b, seed, kind = a["build"], a["seed"], a["kind"]
    rng = random.Random(seed)
    cfg, lines, ids = good_stream(rng)
    conf = cfg.text(b["moddir"])
    results = []
    confs = {}
    if kind == "hostile":
        for rep in range(a["reps"]):
            data = join(rng, mutate(rng, lines, ids))
            out, r = daemon.run_batch(b, conf, data, leaks=True, timeout=WD)
            results.append(("hostile", data, r, None))
            if r.hang:
                break
    elif kind == "prefix":
        data = join(rng, mutate(rng, lines, ids) if rng.random() < 0.5 else [l.encode("latin-1") for l in lines])
        cuts = sorted(set(rng.randrange(len(data) + 1) for _ in range(a["reps"]))) if a["reps"] < len(data) else range(len(data) + 1)
        for cut in cuts:
            out, r = daemon.run_batch(b, conf, data[:cut], leaks=True, timeout=WD)
            results.append(("prefix@%d" % cut, data[:cut], r, None))
            if r.hang:
                break
    elif kind == "chunk":
        hostile = rng.random() < 0.5
        # keep only lines that cannot crash-prone paths? no: the comparison is between segmentations of the SAME stream
        data = join(rng, mutate(rng, lines, ids) if hostile else [l.encode("latin-1") for l in lines])
        if seed % 4 == 1:
            # a dense burst: hundreds of clients whose lines are a few bytes each (several hundred lines fit into one read),
            # announced, completed, hurried, withdrawn - what a server sends after a netsplit
            n_ = rng.choice([150, 400, 1000])
            dl = []
            for k in range(n_):
                dl.append("%d C 10.0.%d.%d 1 10.0.0.1 1" % (k + 1, k >> 8, k & 255))
            for cmd in rng.sample(["d", "u a", "n b", "U a b c :d", "H", "D", "T"], 7)[:rng.choice([3, 5, 7])]:
                for k in range(n_):
                    dl.append("%d %s" % (k + 1, cmd))
            dl.append("-1 ? stats")
            data = ("\n".join(dl) + "\n").encode("latin-1")
        if seed % 4 == 2:
            # a stream whose length is a whole number of 4096-byte reads (the last read fills its buffer exactly, then end of input)
            pad = (-len(data) - 8) % 4096
            data += b"-1 zzz " + b"p" * pad + b"\n"
            if len(data) % 4096:
                data += b"\n" * (4096 - len(data) % 4096)
        ref_out, ref_r = daemon.run_batch(b, conf, data, leaks=True, timeout=WD)
        ref_out = comparable(ref_out)
        results.append(("chunk-ref", data, ref_r, None))
        for rep in range(a["reps"]):
            mx = rng.choice([1, 2, 3, 7, 16, 100, 1000])
            if ref_r.hang:
                break
            env = {"IAUTHD_VERIF_CHUNK": "%d:%d" % (rng.randrange(1 << 30), mx)}
            faulty = a.get("shim") and rep % 3 == 2
            if faulty:
                # transient EINTR / EAGAIN on 30-60 % of the reads of fd 0 (injected by an LD_PRELOAD shim below the sanitizer's interceptors)
                env.update({"LD_PRELOAD": a["shim"], "VERIF_READFAULT": "%d:%d" % (rng.randrange(1 << 30), rng.choice([30, 60]))})
                mx = -mx
            out, r = daemon.run_batch(b, conf, data, leaks=True, timeout=WD, env=env)
            diff = None
            out = comparable(out)
            if r.clean() and ref_r.clean() and out != ref_out:
                k = next((i for i in range(min(len(out), len(ref_out))) if out[i] != ref_out[i]), min(len(out), len(ref_out)))
                diff = "stdout differs at line %d with reads of at most %d bytes: %r vs %r" % (k, mx, out[k:k + 2], ref_out[k:k + 2])
            results.append((("chunk<=%d" % mx) if mx > 0 else ("chunk<=%d+readfaults" % -mx), data, r, diff))
        if not ref_r.hang:
            # the same stream over ONE socket that is the daemon's standard input and output (the way an IRC server runs it), with a
            # reader who falls behind: the daemon's writes wait for the reader, what it says is the same
            out, r = daemon.run_batch(b, conf, data, leaks=True, timeout=WD, transport="socketpair")
            out = comparable(out)
            diff = None
            if r.clean() and ref_r.clean() and out != ref_out:
                k = next((i for i in range(min(len(out), len(ref_out))) if out[i] != ref_out[i]), min(len(out), len(ref_out)))
                diff = "stdout differs at line %d when input and output share a socket and the reader falls behind (%d lines instead of %d): %r vs %r" % (
                    k, len(out), len(ref_out), out[k:k + 2], ref_out[k:k + 2])
            results.append(("chunk-shared-socket", data, r, diff))
    elif kind == "timer":
        # real request timers (1 s): the stream stops in the middle for 1.6 s with stdin open, so the timers of every request that is
        # pending - complete or not, answered NO / OK / not at all, with or without its D - expire; then the rest follows
        tcfg = proto.Config(cfg.services, timeout=1, rules=cfg.rules, use_class=cfg.use_class)
        conf = tcfg.text(b["moddir"])
        for rep in range(a["reps"]):
            keep = [l for l in lines if not (rng.random() < 0.5 and l.split(" ")[1:2] in (["D"], ["T"], ["H"]))]
            bl = mutate(rng, keep, ids) if rng.random() < 0.4 else [l.encode("latin-1") for l in keep]
            data = join(rng, bl)
            cut = data.find(b"\n", int(len(data) * rng.choice([0.5, 0.7, 0.9]))) + 1 or len(data)
            out, r = daemon.run_batch(b, conf, data, leaks=True, timeout=WD, pause_at=cut, pause_s=1.6)
            results.append(("timer", data, r, None))
            if r.hang:
                break
    elif kind == "memcheck":
        # the unsanitized build under valgrind memcheck: values used before they are set, reads of freed or foreign memory that the
        # red zones of the sanitized build do not border
        bp = a["plain"]
        if seed % 2:
            # class rules whose settings are unusual but legal: blank and odd address values, empty strings, every criterion at once
            odd = [{"name": "r%d" % k_, "class": "c%d" % k_, "address": v_} for k_, v_ in enumerate([rng.choice([" ", "  ", "\t"])] + rng.sample(
                ["", "*", "10.*", "10.0.0.0/0", "2001:db8::/128", "0::/0", "1.2.3.4/32", "10.1/16", "::ffff:1.2.3.4/100", "bogus", "1.2.3.4/", "/8"], 4))]
            odd.append({"name": "zz", "account": "", "username": "", "hostname": "", "xreply_ok": "", "trust_username": "maybe"})
            cfg = proto.Config(cfg.services, timeout=cfg.timeout, rules=odd, use_class=True)
        conf = cfg.text(bp["moddir"])
        for rep in range(a["reps"]):
            bl = mutate(rng, lines, ids) if rng.random() < 0.7 else [l.encode("latin-1") for l in lines]
            bl = [x for x in bl if len(x) < 2000] + [b"-1 ? stats", b"-1 ? config", b"-1 ? stats2"]
            data = join(rng, bl)
            out, r = daemon.run_batch(bp, conf, data, leaks=False, timeout=3 * WD, wrapper=VALGRIND)
            results.append(("memcheck", data, r, None))
            if r.hang:
                break
    elif kind == "aged":
        # requests that have been pending for more than ten seconds when statistics are asked for (the report then has a line
        # per old request); no timeout is configured, or one that is longer than the pause
        acfg = proto.Config(cfg.services, timeout=[None, 3600, 0][seed % 3], rules=cfg.rules, use_class=cfg.use_class)
        conf = acfg.text(b["moddir"])
        for rep in range(a["reps"]):
            bl = mutate(rng, lines, ids) if rng.random() < 0.3 else [l.encode("latin-1") for l in lines]
            data = join(rng, bl + [b"-1 ? stats", b"-1 ? stats2", b"-1 ? config", b"-1 ? stats"])
            cut = data.find(b"\n", int(len(data) * rng.choice([0.3, 0.5, 0.7]))) + 1 or len(data)
            data = data[:cut] + b"-1 ? stats\n-1 ? stats2\n" + data[cut:]
            out, r = daemon.run_batch(b, conf, data, leaks=True, timeout=WD, pause_at=cut, pause_s=11.3)
            results.append(("aged", data, r, None))
            if any(l.startswith("S iauth :") and " sec old" in l for l in out):
                results[-1] = ("aged+old-request-lines", data, r, None)
            if r.hang:
                break
    elif kind == "reload":
        # the stream is interrupted by a SIGUSR1 whose file says the same thing in other words: the modules listed in another
        # order (or one of them left to be pulled in as a dependency) - then the rest follows
        import signal
        rcfg = proto.Config(cfg.services, timeout=cfg.timeout, rules=cfg.rules or [{"name": "r1", "class": "c1"}], use_class=True)
        orders_ = [("iauth_xquery", "iauth_class"), ("iauth_class", "iauth_xquery"), ("iauth_class",), ("iauth", "iauth_xquery", "iauth_class"),
                   ("iauth_class", "iauth")]
        for rep in range(a["reps"]):
            m1, m2 = rng.sample(orders_, 2)
            rcfg.modules = m1
            conf = rcfg.text(b["moddir"])
            rcfg.modules = m2
            conf2 = rcfg.text(b["moddir"])

            def do_reload(d, text=conf2):
                with open(d.conf_path, "w", encoding="latin-1") as f:
                    f.write(text)
                d.p.send_signal(signal.SIGUSR1)
            bl = mutate(rng, lines, ids) if rng.random() < 0.3 else [l.encode("latin-1") for l in lines]
            data = b"-1 ? config\n" + join(rng, bl + [b"-1 ? stats", b"-1 ? config"])
            cut = data.find(b"\n", int(len(data) * rng.choice([0.2, 0.5, 0.8]))) + 1 or len(data)
            out, r = daemon.run_batch(b, conf, data, leaks=True, timeout=WD, pause_at=cut, pause_s=0.25, on_pause=do_reload, ready=lambda o: o.count(b"\na\n") >= 2)
            confs[len(results)] = (conf, conf2, cut)
            results.append(("reload:%s->%s" % ("+".join(m1), "+".join(m2)), data, r, None))
            if r.hang:
                break
    elif kind == "junk":
        good = [l.encode("latin-1") for l in lines]
        ref_out, ref_r = daemon.run_batch(b, conf, b"".join(l + b"\n" for l in good), leaks=True, timeout=WD)
        ref_out = comparable(ref_out)
        results.append(("junk-ref", b"\n".join(good), ref_r, None))
        unused = [i for i in (4242, 31337, 77, 123456789, 2147483646) if i not in ids]
        # routing tags and services that really occur in the good stream (for malformed replies that name a live exchange)
        live = [(m_.group(1), m_.group(2)) for m_ in (re.match(r"^-1 [Xx] (\S+) (\S+) :", l_) for l_ in lines) if m_]
        for rep in range(a["reps"]):
            mixed = []
            for l in good:
                while rng.random() < 0.3:
                    c = rng.random()
                    if c < 0.12 and live:
                        # a reply or unlinked notice without its text parameter, for a tag and service of the good stream
                        sv_, tg_ = rng.choice(live)
                        mixed.append(("-1 %s %s %s" % (rng.choice("Xx"), sv_, tg_)).encode())
                    elif c < 0.16 and live:
                        # a reply for a tag and service of the good stream whose text is neither a verdict nor a challenge
                        sv_, tg_ = rng.choice(live)
                        mixed.append(("-1 X %s %s :%s" % (sv_, tg_, rng.choice(["NO", "AGAIN", "MORE", "NOPE", "NOTICE hello", "OKAY x", "ok a", "no x", "O", "N", "MOREOVER y", "AGAINST z", ""]))).encode())
                    elif c < 0.175:
                        # a line for an id no client has: a live id plus or minus 2^32, or a number no integer type holds
                        far = rng.choice([(1 << 32) + rng.choice(ids), rng.choice(ids) - (1 << 32), (1 << 33) + rng.choice(ids), 99999999999999999999999, -99999999999999999999999])
                        mixed.append(("%d %s" % (far, rng.choice(["D", "T", "H", "N far.example", "u far", "P :+x far pw", "d"]))).encode())
                    elif c < 0.19:
                        # an announcement that lacks parameters, for an id of the good stream (it announces nobody)
                        mixed.append(("%d %s" % (rng.choice(ids), rng.choice(["C", "C 1.2.3.4", "C 1.2.3.4 5", "C 1.2.3.4 5 6.7.8.9", "Cfoo", "C ::1 1"]))).encode())
                    elif c < 0.2:
                        # one over-long junk line (unknown command word) whose body is made of fragments that would be valid lines
                        frag = rng.choice(["%d D " % rng.choice(ids), "%d T " % rng.choice(ids), "%d H " % rng.choice(ids), "-1 X login.svc %x_1 :NO x " % rng.choice(ids)])
                        mixed.append(("-1 zzz " + frag * (rng.choice([3000, 9000, 20000, 70000]) // len(frag))).encode())
                    elif c < 0.4:
                        cmd = rng.choice("DNdPUunHTEMXx?")
                        mixed.append(("%d %s%s" % (rng.choice(unused), cmd, rng.choice(["", " a", " a b :c d", " :x"]))).encode())
                    elif c < 0.7:
                        word = rng.choice(["Z", "q", "foo", "0", "!", "~x", "@", "[", "cmd", "zzzz", "1", "-"])
                        mixed.append(("%d %s%s" % (rng.choice(ids + [-1] + unused), word, rng.choice(["", " a", " a b", " :t"]))).encode())
                    else:
                        tag = rng.choice(["5", "5_", "zz_1", "5_1x", "5_1_2", "g_1", "%x_zz" % rng.choice(ids), "_", "1-1"])
                        mixed.append(("-1 %s %s %s :%s" % (rng.choice("Xx"), rng.choice(["login.svc", "drone.svc", "nosuch"]), tag, rng.choice(["OK", "OK a", "NO x", "MORE y"]))).encode())
                mixed.append(l)
            data = b"".join(l + b"\n" for l in mixed)
            if ref_r.hang:
                break
            out, r = daemon.run_batch(b, conf, data, leaks=True, timeout=WD)
            diff = None
            out = comparable(out)
            if r.clean() and ref_r.clean() and out != ref_out:
                k = next((i for i in range(min(len(out), len(ref_out))) if out[i] != ref_out[i]), min(len(out), len(ref_out)))
                diff = "stdout differs at line %d when junk lines are mixed in: %r vs %r" % (k, out[k:k + 2], ref_out[k:k + 2])
            results.append(("junk", data, r, diff))
    packed = []
    for idx, (tag, data, r, diff) in enumerate(results):
        if idx in confs:
            conf = confs[idx][0]
        packed.append({"tag": tag, "reload": confs[idx][1:] if idx in confs else None, "clean": r.clean(), "crash": r.crash_events(), "stderr": r.stderr[-2500:] if not r.clean() else "", "diff": diff,
                       "data": data if (not r.clean() or diff) else None, "head": data[:600].decode("latin-1"), "len": len(data), "conf": conf if (not r.clean() or diff) else None,
                       "hash": vcommon.h([tag, seed, len(data), data[:200].decode("latin-1")])})
    return kind, packed


def minimise(b, conf, data, crash_key):
    """Line-level ddmin of a crashing stream (bounded)."""
    lines = data.split(b"\n")

    def fails(ls):
        out, r = daemon.run_batch(b, conf, b"\n".join(ls) + b"\n", leaks=True, timeout=20)
        return crash_key in r.crash_events()
    n = 2
    runs = 0
    while len(lines) >= 2 and runs < 120:
        chunk = max(1, len(lines) // n)
        reduced = False
        for st in range(0, len(lines), chunk):
            cand = lines[:st] + lines[st + chunk:]
            runs += 1
            if cand and fails(cand):
                lines = cand
                n = max(2, n - 1)
                reduced = True
                break
        if not reduced:
            if chunk == 1:
                break
            n = min(len(lines), n * 2)
    return b"\n".join(lines) + b"\n"


def run(chk, tier, scale=1.0):
    b = prun.build_daemon("c08-" + tier)
    q = tier == "quick"
    jobs = []
    seedbase = chk.seed * 100003

    import build as buildmod
    import subprocess
    shim = os.path.join(b["out"], "readfault.so")
    subprocess.run(["gcc", "-shared", "-fPIC", "-O1", "-o", shim, os.path.join(vcommon.VERIF, "harness", "readfault.c"), "-ldl"], check=True)
    san = [subprocess.run(["gcc", "-print-file-name=" + n], stdout=subprocess.PIPE, text=True).stdout.strip() for n in ("libasan.so", "libubsan.so")]
    preload = " ".join(san + [shim])

    bplain = buildmod.build_daemon(buildmod.fresh_dir("c08p-" + tier), "plain", site=True)

    def add(kind, n, reps):
        for i in range(n):
            jobs.append(dict(build=b, seed=seedbase + len(jobs), kind=kind, reps=reps, shim=preload, plain=bplain))
    add("hostile", int((160 if q else 4000) * scale), 5)
    add("prefix", int((8 if q else 10) * scale) or 1, 60 if q else 10 ** 9)
    add("chunk", int((40 if q else 500) * scale), 6 if q else 20)
    add("junk", int((50 if q else 1000) * scale), 4 if q else 5)
    add("timer", int((16 if q else 160) * scale) or 1, 2)
    add("reload", int((24 if q else 400) * scale) or 1, 2)
    add("aged", int((3 if q else 32) * scale) or 1, 1)
    add("memcheck", int((16 if q else 400) * scale) or 1, 2)
    jobs.sort(key=lambda j: j["kind"] != "aged")      # the slow ones first
    res = vcommon.pmap(_stream_worker, jobs, chunksize=1)
    # (6) the well-formed workloads of the behavioural checks - rule tables with every kind of criterion and address form, service
    # tables of up to 40 entries, address texts of every shape, reloads - judged here by the crash / sanitizer / exit oracle alone
    # (those checks call a run that ends in a sanitizer report inconclusive and point here)
    from checks import c06, c11, c12, pcommon
    wf = []
    wf += vcommon.pmap(c11._worker, [dict(build=b, seed=random.Random("c08w11/%d/%d" % (chk.seed, i)).randrange(1 << 30), nprobes=24) for i in range(int((32 if q else 600) * scale) or 1)])
    wf += vcommon.pmap(c12._daemon_worker, [dict(build=b, seed=chk.seed * 7919 + 500 + i, n=20) for i in range(int((12 if q else 200) * scale) or 1)])
    wf += vcommon.pmap(c06._many_worker, [dict(build=b, n=n_, seed=chk.seed * 100 + k, mixed=(k % 2 == 0), props=[]) for k, n_ in enumerate([31, 32, 33, 40] * (1 if q else 6))])
    wf += vcommon.pmap(prun.hist_worker, pcommon.hist_jobs(b, int((64 if q else 1500) * scale) or 1, chk.seed, [], tag="c08h", n_events=80), chunksize=4)
    wf_seen = set()
    for r in wf:
        chk.add_case(r["hash"], r["nontrivial"])
        chk.count("runs_wellformed_history")
        chk.count("clean_exits", 0 if r["crash"] else 1)
        for (kind, func, err, tail) in r["crash"]:
            if (kind, func) in wf_seen:
                continue
            wf_seen.add((kind, func))
            chk.violation(Violation("C08", "crash", "%s|%s" % (kind, func), "daemon failed (%s in %s) during a well-formed history\n%s\nlast steps:\n%s" % (kind, func, err, tail),
                                    {"config": r["config"], "events": r["events"], "wellformed": True}))
    # bursts that are a whole number of 4096-byte reads long, with the input left OPEN afterwards: the daemon must come to rest in
    # its event loop having handled every line - not inside read(2), holding lines it has taken and not looked at ("nor hangs")
    bj = [dict(build=b, seed=chk.seed * 1117 + k, n=[40, 120, 300][k % 3], service=(k % 2 == 1), pad4096=True, sock=(k % 4 == 3)) for k in range(int((6 if q else 60) * scale) or 1)]
    for r in vcommon.pmap(pcommon.burst_worker, bj):
        chk.add_case(r["hash"], r["nontrivial"])
        chk.count("runs_burst_of_whole_reads_then_silence")
        for w in r["inconc"]:
            chk.inconc(w)
        if r["stats"].get("burst_runs_ending_blocked_in_read"):
            wit = [v[4] for v in r["viol"]][:1] or [{"burst": True}]
            chk.violation(Violation("C08", "hang", "hang:blocked-in-read", "after a burst of %d lines (a whole number of 4096-byte reads) with the input left open the daemon sleeps inside read(2) "
                                    "on its input, nothing left to read, for two seconds on end; lines it has taken are unanswered: %s" % (
                                        r["stats"]["burst_lines"], [v[3][:300] for v in r["viol"]][:1]), dict(wit[0], burst=True)))
    # the module interface no shipped module uses (fixture module site_api), on the unsanitized build under valgrind memcheck
    import sitemodel
    for r in vcommon.pmap(sitemodel.site_worker, [dict(build=bplain, seed=chk.seed * 1201 + k, n=[60, 120][k % 2], wrapper=VALGRIND) for k in range(int((4 if q else 48) * scale) or 1)]):
        chk.add_case(r["hash"], True)
        chk.count("runs_site_api_under_memcheck")
        for w in r["inconc"]:
            chk.inconc(w)
        for (cls, rule, sig, text, wit) in r["viol"]:
            if cls == "crash":
                chk.violation(Violation("C08", "crash", sig, text, dict(wit, memcheck_site=True)))
    seen_crash = {}
    sampled = set()
    for kind, packed in res:
        for p in packed:
            chk.add_case(p["hash"], p["len"] > 0)
            if kind not in sampled and 0 < p["len"] < 20000:
                sampled.add(kind)
                chk.sample({"kind": kind, "variant": p["tag"], "bytes": p["len"], "input_head": p["head"]}, limit=4)
            chk.count("runs_" + kind)
            if "old-request-lines" in p["tag"]:
                chk.count("runs_that_reported_old_requests")
            if "readfaults" in p["tag"]:
                chk.count("runs_with_injected_read_errors")
            if p["tag"] == "chunk-shared-socket":
                chk.count("runs_over_a_shared_socket_with_a_slow_reader")
            chk.count("input_bytes", p["len"])
            if p["clean"]:
                chk.count("clean_exits")
            for ck in p["crash"]:
                ck = tuple(ck)
                if ck not in seen_crash:
                    seen_crash[ck] = p
            if p["diff"]:
                rule = "chunking" if kind == "chunk" else "junk-mixing"
                if p["tag"] == "chunk-shared-socket":
                    rule = "shared-socket"
                chk.violation(Violation("C08", rule, rule, p["diff"], {"config": p["conf"], "input": p["data"].decode("latin-1"), "tag": p["tag"]}))
            elif kind in ("chunk", "junk") and p["clean"] and not p["tag"].endswith("ref"):
                chk.count("differential_pairs_equal")
    for ck, p in sorted(seen_crash.items()):
        data = p["data"]
        if ck[0] == "hang":
            out2, r2 = daemon.run_batch(b, p["conf"], data, leaks=True, timeout=3 * WD)
            if not r2.hang:
                chk.inconc("watchdog fired once but the run finished when repeated (%s)" % p["tag"])
                continue
            chk.violation(Violation("C08", "hang", "hang", "daemon does not terminate at end of input (%s stream, %d bytes; repeated with a %.0f s watchdog); tail of input: %r" % (
                p["tag"], len(data), 3 * WD, data[-120:]), {"config": p["conf"], "input": data.decode("latin-1"), "tag": p["tag"]}))
            continue
        if p["tag"] == "memcheck":
            chk.violation(Violation("C08", "crash", "%s|%s" % ck, "valgrind memcheck on the unsanitized build: %s in %s\n%s" % (ck[0], ck[1], p["stderr"]),
                                    {"config": p["conf"], "input": data.decode("latin-1"), "tag": p["tag"], "memcheck": True}))
            continue
        if p.get("reload"):
            chk.violation(Violation("C08", "crash", "%s|%s" % ck, "daemon failed (%s in %s) on a %s stream: started with the first file, SIGUSR1 with the second after %d bytes of input\n%s" % (
                ck[0], ck[1], p["tag"], p["reload"][1], p["stderr"]),
                {"config": p["conf"], "config_after_reload": p["reload"][0], "reload_at": p["reload"][1], "input": data.decode("latin-1"), "tag": p["tag"]}))
            continue
        try:
            small = minimise(b, p["conf"], data, ck)
        except Exception:
            small = data
        chk.violation(Violation("C08", "crash", "%s|%s" % ck, "daemon failed (%s in %s) on a %s stream; minimised input:\n%s\n%s" % (
            ck[0], ck[1], p["tag"], small[:1500].decode("latin-1"), p["stderr"]), {"config": p["conf"], "input": small.decode("latin-1"), "tag": p["tag"]}))
    chk.rule = ("(1) hostile streams: grammar-aware mutation of good multi-client histories - parameters dropped one at a time from every command (bare-id lines, every data "
                "command without its argument), 0..40 arguments, empty / whitespace / colon-only lines, CR LF mixtures, NUL and high bytes, 600 B..70 KB lines, ids at and "
                "beyond the limits of int and long, every command with id -1 and with live ids, replies with every malformed tag, random bytes; (2) peer death: %s prefixes of "
                "streams; (3) the same stream (a quarter of them dense bursts of 150-1000 clients with lines of a few bytes) under read() segmentations of at most 1,2,3,7,16,100,1000 bytes chosen by the guarded chunk hook must give identical stdout; "
                "every third segmentation run additionally has 30-60 %% of the read()/readv() calls on fd 0 fail with EINTR / EAGAIN (LD_PRELOAD shim); (6) the well-formed workloads of C11 (rule tables), C12 (address texts), C06 (31-40 services) and random histories with reloads, judged by this oracle alone; (5) hostile streams fed to the UNSANITIZED build under valgrind memcheck (uninitialised values, invalid reads and writes); (3d) streams interrupted for 11.3 s so that the statistics asked for afterwards report requests more than ten seconds old; (3c) streams interrupted by a SIGUSR1 whose file lists the same modules in another order; (3b) streams interrupted for 1.6 s under a 1 s request timeout so that the real timers of pending, refused and abandoned requests expire; (4) a good stream with junk lines (unknown ids, unknown command words, malformed replies) mixed in must give identical stdout; oracle for all: exit 0 at end "
                "of input, no ASan / UBSan / LeakSanitizer report, no hang; distinct = hash of input; non-trivial = non-empty input" % ("60 sampled per stream" if q else "all"))
    chk.require("runs_hostile", 500 * min(1.0, scale))
    chk.require("runs_that_reported_old_requests", 1)
    chk.require("runs_prefix", 200 * min(1.0, scale))
    chk.require("differential_pairs_equal", 200 * min(1.0, scale))
    chk.assumptions += ["a clean sanitizer run is not memory safety (non-adjacent and intra-object overflows are missed)", "streams up to ~100 KB"]


def replay(chk, rep):
    b = prun.build_daemon("c08-replay")
    w = rep["witness"]
    if w.get("memcheck_site"):
        import build as buildmod
        import sitemodel
        bp = buildmod.build_daemon(buildmod.fresh_dir("c08p-replay"), "plain", site=True)
        r = sitemodel.site_worker(dict(build=bp, seed=w["seed"], n=w["n"], wrapper=VALGRIND))
        hit = [v for v in r["viol"] if v[0] == "crash"]
        for v in hit:
            print(v[3])
        return 1 if hit else 0
    if w.get("burst"):
        from checks import pcommon
        r = pcommon.burst_worker(dict(build=b, seed=w["seed"], n=w["n"], service=w.get("service"), after=w.get("after"), sock=w.get("sock"), pad4096=w.get("pad4096")))
        print(r["stats"])
        return 1 if r["stats"].get("burst_runs_ending_blocked_in_read") else 0
    if w.get("wellformed"):
        return prun.replay_witness(chk, rep, [])
    if w.get("tag") == "chunk-shared-socket":
        conf = w["config"].replace("c08-quick", "c08-replay").replace("c08-thorough", "c08-replay")
        o1, r1 = daemon.run_batch(b, conf, w["input"].encode("latin-1"), leaks=True)
        o2, r2 = daemon.run_batch(b, conf, w["input"].encode("latin-1"), leaks=True, transport="socketpair")
        print(len(o1), len(o2), r1.describe(), r2.describe())
        return 1 if comparable(o1) != comparable(o2) or not r1.clean() or not r2.clean() else 0
    if w.get("memcheck"):
        import build as buildmod
        bp = buildmod.build_daemon(buildmod.fresh_dir("c08p-replay"), "plain")
        out, r = daemon.run_batch(bp, w["config"].replace("c08p-quick", "c08p-replay").replace("c08p-thorough", "c08p-replay"), w["input"].encode("latin-1"), leaks=False, wrapper=VALGRIND)
    elif w.get("config_after_reload"):
        import signal

        def do_reload(d, text=w["config_after_reload"]):
            with open(d.conf_path, "w", encoding="latin-1") as f:
                f.write(text)
            d.p.send_signal(signal.SIGUSR1)
        out, r = daemon.run_batch(b, w["config"].replace("c08-quick", "c08-replay").replace("c08-thorough", "c08-replay"), w["input"].encode("latin-1"), leaks=True,
                                  pause_at=w["reload_at"], pause_s=0.25, on_pause=do_reload, ready=lambda o: o.count(b"\na\n") >= 2)
    else:
        out, r = daemon.run_batch(b, w["config"], w["input"].encode("latin-1"), leaks=True)
    print("\n".join(out[-20:]))
    print(r.describe())
    return 0 if r.clean() else 1
