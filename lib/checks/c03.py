"""C03 - no stuck clients (DESIGN.md C03)."""
import random

import orders
import proto
import prun
import vcommon
from checks import pcommon
from checks.c02 import order_cases
from vcommon import Violation

LEVEL = "exploration"
PROPS = ["C03"]


def run(chk, tier, scale=1.0):
    b = prun.build_daemon("c03-" + tier)
    cases = order_cases(tier, chk.seed, scale, "c03")
    per = 40
    work = [dict(build=b, cases=cases[i:i + per], props=PROPS, want_sample=(i == 0)) for i in range(0, len(cases), per)]
    for rs in vcommon.pmap(prun.orders_worker, work):
        prun.fold(chk, "C03", rs, crash_is_violation=True)
    chk.count("enumerated_order_histories", len(cases))
    n = int((500 if tier == "quick" else 10000) * scale)
    opts = {"weights": {"timeout": 9, "hurry": 5, "reply": 26, "password": 18, "stray": 8, "unlinked": 5, "dupdata": 5}, "reply_kinds": ["OK", "OKacct", "OKacct", "AGAIN", "MORE", "NO", "junk", "OKspace"]}
    jobs = pcommon.hist_jobs(b, n, chk.seed, PROPS, opts=opts, tag="c03", want_class=False)
    prun.fold(chk, "C03", vcommon.pmap(prun.hist_worker, jobs, chunksize=4), crash_is_violation=True)
    # directed scripts: ids that agree in their low bits live at the same time; a reload that removes a service which still owes an
    # answer or the continuation of a MORE dialogue
    dj = pcommon.collision_jobs(b, chk.seed, PROPS, int((120 if tier == "quick" else 3000) * scale)) + \
         pcommon.reload_jobs(b, chk.seed, PROPS, int((280 if tier == "quick" else 7000) * scale)) + \
         pcommon.late_jobs(b, chk.seed, PROPS, int((60 if tier == "quick" else 1500) * scale))
    # a SHORT request timeout (2-3 s; the script takes milliseconds): hurry-up while a query is unanswered, then the timer's handler is
    # fired through the guarded hook - which does nothing if the timer is no longer pending (a verdict that came by itself is fine too)
    hs = []
    for k in range(int((12 if tier == "quick" else 240) * scale) or 2):
        cfgh = proto.Config([("drone.svc", "dronecheck")] + ([("login.svc", "login")] if k % 2 else []), timeout=[3, 2][k % 2])
        cid = [5, 0, 70000][k % 3]
        evh = [{"t": "announce", "id": cid, "ip": "192.0.2.5", "port": 1005}, {"t": "host", "id": cid, "name": "h5.example"}, {"t": "ident", "id": cid, "name": "id5"}]
        if k % 2:
            evh += [{"t": "password", "id": cid, "text": "+x acct5 pw"}]
        evh += [{"t": "nick", "id": cid, "name": "n5"}, {"t": "userinfo", "id": cid, "user": "u5", "real": "R"}][:(k // 2) % 3] + [{"t": "hurry", "id": cid}]
        if (k // 6) % 2:
            evh += [{"t": "hurry", "id": cid}]
        evh += [{"t": "timeout", "id": cid}, {"t": "stats"}]
        hs.append((cfgh.to_json(), evh))
    # a trailing parameter that is there and empty (`U user :`, an empty real name) is a parameter: the line completes the client
    for k in range(4):
        cid = [5, 0, 70000, 9][k]
        cfge = proto.Config([("drone.svc", "dronecheck")] if k % 2 else [], timeout=3600)
        eve = [{"t": "announce", "id": cid, "ip": "192.0.2.6", "port": 1006}, {"t": "host", "id": cid, "name": "h6.example"}, {"t": "ident", "id": cid, "name": "id6"},
               {"t": "nick", "id": cid, "name": "n6"}, {"t": "userinfo", "id": cid, "user": "u6", "real": ""}]
        if k % 2:
            eve += [{"t": "reply", "svc": "drone.svc", "tag": "%x_1" % cid, "text": "OK"}]
        eve += [{"t": "stats"}]
        hs.append((cfge.to_json(), eve))
    dj = dj + [dict(build=b, scripts=hs[i:i + 6], props=PROPS) for i in range(0, len(hs), 6)]
    for rs in vcommon.pmap(pcommon.script_worker, dj):
        prun.fold(chk, "C03", rs, crash_is_violation=True)
    # bursts: hundreds of clients in one write, judged when the daemon sleeps with its input drained (no hook, no deadline)
    for r in vcommon.pmap(pcommon.burst_worker, _burst_jobs(b, chk, tier, scale)):
        chk.add_case(r["hash"], r["nontrivial"])
        chk.merge_counts(r["stats"])
        if r.get("sample"):
            chk.sample(r["sample"], limit=1)
        for w in r["inconc"]:
            chk.inconc(w)
        for (p, rule, sig, text, wit) in r["viol"]:
            if p == "C03":
                chk.violation(Violation(p, rule, sig, text, wit))
    chk.require("burst_verdicts_at_quiescence", 500 * min(1.0, scale))
    chk.require("burst_runs_on_a_shared_socket", 3 * min(1.0, scale))
    # the module interface no shipped module uses (set address / host name / user name, challenge, kill, accept, holds ...), driven
    # through the fixture module site_api and compared line for line with a model of the core (lib/sitemodel.py)
    import sitemodel
    sitemodel.fold_site(chk, "C03", tier, scale, 1019, ('C03', 'crash'))
    chk.rule = ("bursts of 40-700 clients whose lines (a few bytes each) arrive in one write on the unhooked channel: when the daemon has drained its input and sleeps in "
                "epoll_wait (read from /proc and the pipe), every one of them has its verdict - half of the bursts over ONE socket that is the daemon's standard input and output, with a reader who falls behind; "
                "the C02 workload (all 120 arrival orders x service tables x reply policies x timeout / hurry-up positions x passwords) plus random multi-client "
                "histories weighted towards late, duplicate and unexpected replies, repeated passwords, unlinked notices and timeouts; after EVERY input line the monitor "
                "asks of every open client: all required data (or H), no query unanswered (or timeout expired and no query sent since), no +! without account - "
                "if so the verdict must have been issued in that very step; a daemon crash counts (every live client is stuck); "
                "distinct = hash of (config, input lines); non-trivial = at least one verdict")
    chk.require("accepts", 3000 * min(1.0, scale))
    chk.require("timeouts_effective", 1000 * min(1.0, scale))
    chk.require("accept_checks_with_await_history", 100 * min(1.0, scale))
    chk.require("plus_bang_instances", 300 * min(1.0, scale))
    chk.require("stuck_evaluations", 20000 * min(1.0, scale))
    chk.assumptions += ["a query sent after the timeout already expired is not judged either way (the statement does not say whether it may hold the client)", "required items are read from the policy line the daemon prints at start-up",
                        "the timeout hook runs the real handler; histories configure timeout 3600 so the real timer never fires on its own"]


def _burst_jobs(b, chk, tier, scale):
    return [dict(build=b, seed=chk.seed * 977 + k, n=[40, 120, 300, 700][k % 4], service=(k % 3 == 1), after=(k % 2 == 1), sock=(k % 4 in (1, 2)), pad4096=(k % 3 == 2))
            for k in range(int((12 if tier == "quick" else 200) * scale) or 1)]


def replay(chk, rep):
    if rep["witness"].get("site"):
        import sitemodel
        return sitemodel.replay_site(chk, rep["witness"], "C03", ('C03', 'crash'))
    w = rep["witness"]
    if w.get("burst"):
        r = pcommon.burst_worker(dict(build=prun.build_daemon("c03-replay"), seed=w["seed"], n=w["n"], service=w["service"], after=w.get("after"), sock=w.get("sock"), pad4096=w.get("pad4096")))
        for v in r["viol"]:
            print(v[3])
        return 1 if r["viol"] else 0
    return prun.replay_witness(chk, rep, PROPS)
