"""Run a harness executable under the sanitizer runtime options used everywhere."""
import os
import subprocess

import daemon


def san_env(leaks=True, extra=None):
    e = dict(os.environ)
    e["ASAN_OPTIONS"] = daemon.ASAN_OPTS % (1 if leaks else 0)
    e["UBSAN_OPTIONS"] = daemon.UBSAN_OPTS
    e["LSAN_OPTIONS"] = "exitcode=97"
    if extra:
        e.update(extra)
    return e


class HRes(object):
    def __init__(self, rc, out, err, hang):
        self.rc = rc
        self.out = out
        self.err = err
        self.hang = hang
        self.sanitizer = daemon.parse_sanitizer(err)

    def crash_events(self):
        ev = [(s["kind"], s["func"]) for s in self.sanitizer]
        if self.hang:
            ev.append(("hang", "?"))
        elif self.rc < 0 and not self.sanitizer:
            ev.append(("signal:%d" % -self.rc, daemon._abort_site(self.err)))
        return ev


def run(cmd, stdin_data=None, timeout=600, leaks=True, env=None, cwd=None):
    e = san_env(leaks, env)
    try:
        p = subprocess.run(cmd, input=stdin_data, stdout=subprocess.PIPE, stderr=subprocess.PIPE,
                           timeout=timeout, env=e, cwd=cwd)
        return HRes(p.returncode, p.stdout.decode("latin-1"), p.stderr.decode("latin-1"), False)
    except subprocess.TimeoutExpired as ex:
        return HRes(-9, (ex.stdout or b"").decode("latin-1"), (ex.stderr or b"").decode("latin-1"), True)
