"""Reference model of the iauth_class rule table (C11, shared with C05/C17)."""
import ipaddress
import re


def q(s):
    return '"' + s.replace("\\", "\\\\").replace('"', '\\"') + '"'


def render_rules(rules):
    out = []
    for r in rules:
        if "_plain" in r:
            # a setting that is not a rule (the section may hold other things than rule objects)
            out.append("    %s %s;" % (q(r["name"]), q(r["_plain"])))
            continue
        out.append("    %s {" % q(r["name"]))
        for k in ("class", "account", "address", "username", "hostname", "xreply_ok"):
            if r.get(k) is not None:
                out.append("        %s %s;" % (k, q(r[k])))
        if r.get("trust_username") is not None:
            out.append("        trust_username %s;" % r["trust_username"])
        out.append("    };")
    return "\n".join(out)


def _glob_tokens(pat):
    """POSIX fnmatch pattern (flags 0) -> list of ('*',) / ('?',) / ('lit', ch) / ('set', negate, [(lo, hi)...]); None if malformed here."""
    toks = []
    i, n = 0, len(pat)
    while i < n:
        c = pat[i]
        if c == "*":
            toks.append(("*",))
        elif c == "?":
            toks.append(("?",))
        elif c == "\\":
            if i + 1 >= n:
                return None          # trailing backslash: not generated
            i += 1
            toks.append(("lit", pat[i]))
        elif c == "[":
            j = i + 1
            neg = False
            if j < n and pat[j] in "!^":
                neg = True
                j += 1
            items = []
            first = True
            while j < n and (pat[j] != "]" or first):
                first = False
                lo = pat[j]
                if lo == "\\" and j + 1 < n:
                    j += 1
                    lo = pat[j]
                if j + 2 < n and pat[j + 1] == "-" and pat[j + 2] != "]":
                    items.append((lo, pat[j + 2]))
                    j += 3
                else:
                    items.append((lo, lo))
                    j += 1
            if j >= n:
                toks.append(("lit", "["))   # no closing bracket: '[' stands for itself
            else:
                toks.append(("set", neg, items))
                i = j
        else:
            toks.append(("lit", c))
        i += 1
    return toks


def glob_match(pat, s):
    """fnmatch(pat, s, 0) for the patterns the generators produce: literals, *, ?, [...] with ranges and !/^ negation, backslash
    escapes (own matcher; no locale classes)."""
    toks = _glob_tokens(pat)
    if toks is None:
        raise ValueError("model cannot read glob %r" % pat)
    m = len(s)
    dp = [False] * (m + 1)
    dp[0] = True
    for t in toks:
        new = [False] * (m + 1)
        if t[0] == "*":
            new[0] = dp[0]
            for j in range(1, m + 1):
                new[j] = dp[j] or new[j - 1]
        else:
            for j in range(1, m + 1):
                ch = s[j - 1]
                if t[0] == "?":
                    ok = True
                elif t[0] == "lit":
                    ok = ch == t[1]
                else:
                    inside = any(lo <= ch <= hi for lo, hi in t[2])
                    ok = inside != t[1]
                new[j] = dp[j - 1] and ok
        dp = new
    return dp[m]


def parse_mask(text):
    """(bits, 128-bit network value) for a.b.c.d/n, a.b.*, x:y::/n, x:y:*, *, plain addresses; None if not understood."""
    if re.match(r"^\*+$", text):
        return 0, 0
    m = re.match(r"^(\d+(?:\.\d+)*)\.\*+$", text)
    if m:
        parts = [int(x) for x in m.group(1).split(".")]
        if len(parts) > 3 or any(p > 255 for p in parts):
            return None
        v = 0
        for i, p in enumerate(parts):
            v |= p << (24 - 8 * i)
        return 96 + 8 * len(parts), (0xffff << 32) | v
    m = re.match(r"^((?:[0-9a-fA-F]{1,4}:)+)\*+$", text)
    if m:
        groups = m.group(1).rstrip(":").split(":")
        if len(groups) > 7:
            return None
        v = 0
        for i, g in enumerate(groups):
            v |= int(g, 16) << (112 - 16 * i)
        return 16 * len(groups), v
    if "/" in text:
        a, n = text.rsplit("/", 1)
        if not n.isdigit():
            return None
        n = int(n)
        # "missing trailing bits, as in 192.168/16" (iauth.h): the octets given are the leading ones
        m = re.match(r"^\d+\.\d+(\.\d+)?$", a)
        if m:
            a = a + (".0" if m.group(1) else ".0.0")
    else:
        a, n = text, None
    try:
        ip = ipaddress.ip_address(a)
    except ValueError:
        return None
    if ip.version == 4:
        if n is not None and n > 32:
            return None
        return 96 + (32 if n is None else n), (0xffff << 32) | int(ip)
    if n is not None and n > 128:
        return None
    return (128 if n is None else n), int(ip)


def mask_match(addr_value, bits, net):
    if bits == 0:
        return True
    sh = 128 - bits
    return (addr_value >> sh) == (net >> sh)


def sorted_rules(rules):
    return sorted(rules, key=lambda r: r["name"].lower())


def evaluate(rules, client):
    """client: dict(account, addr(128-bit), ident, hostname, ok_services(set, lower-case), cli_username)
    Returns (class or None, trusted_username or None, rule name or None)."""
    for r in sorted_rules(rules):
        if "_plain" in r:
            continue
        if r.get("account") is not None:
            acct = client.get("account") or ""
            acct = acct.split(":", 1)[0]
            if not glob_match(r["account"], acct):
                continue
        if r.get("username") is not None and not glob_match(r["username"], client.get("ident") or ""):
            continue
        if r.get("hostname") is not None and not glob_match(r["hostname"], client.get("hostname") or ""):
            continue
        if r.get("xreply_ok") is not None and r["xreply_ok"].lower() not in client.get("ok_services", set()):
            continue
        # (the address last: a rule whose address text is no mask at all is only ever generated together with a criterion that no
        # client meets, so the model never has to say what such an address means)
        if r.get("address") is not None:
            pm = parse_mask(r["address"])
            if pm is None:
                raise ValueError("model cannot read mask %r" % r["address"])
            if not mask_match(client["addr"], pm[0], pm[1]):
                continue
        trusted = None
        if r.get("trust_username") in ("1", "true", "on", "enabled", "yes") and (client.get("ident") or "").startswith("~"):
            cu = client.get("cli_username") or ""
            trusted = cu[1:] if cu.startswith("~") else cu
        return (r.get("class") if r.get("class") is not None else r["name"]), trusted, r["name"]
    return None, None, None
