"""Shared verdict / evidence / known-findings machinery (DESIGN.md 3.5-3.7)."""
import hashlib
import json
import multiprocessing
import os
import sys
import time
import traceback

VERIF = os.path.dirname(os.path.dirname(os.path.abspath(__file__)))
sys.path.insert(0, VERIF)
sys.path.insert(0, os.path.join(VERIF, "lib"))

OUT = os.environ.get("VERIF_OUT", VERIF)

EXIT_OK, EXIT_VIOLATION, EXIT_INCONCLUSIVE = 0, 1, 2


def seed_from_env(default=1):
    try:
        return int(os.environ.get("VERIF_SEED", default))
    except ValueError:
        return default


def jobs():
    try:
        return max(1, int(os.environ.get("VERIF_JOBS", "16")))
    except ValueError:
        return 16


def h(obj):
    return hashlib.sha1(json.dumps(obj, sort_keys=True, default=str).encode()).hexdigest()[:16]


class Violation(object):
    """One refutation of a property.

    signature: deterministic key used for known-findings matching (never the
    property id alone).  witness: JSON-able replay data.
    """

    def __init__(self, prop, rule, signature, what, witness):
        self.prop = prop
        self.rule = rule
        self.signature = signature
        self.what = what
        self.witness = witness

    def key(self):
        return "%s|%s" % (self.prop, self.signature)


def load_findings():
    p = os.path.join(VERIF, "known_findings.json")
    if not os.path.exists(p):
        return []
    with open(p) as f:
        return json.load(f).get("findings", [])


def open_findings(prop):
    return {e["signature"]: e for e in load_findings()
            if e.get("property") == prop and e.get("status") == "open"}


class Check(object):
    """Bookkeeping for one check run: evidence + verdict + exit code."""

    def __init__(self, prop, tier, level="exploration"):
        self.prop = prop
        self.tier = tier
        self.level = level
        self.seed = seed_from_env()
        self.t0 = time.time()
        self.evaluations = 0
        self.nontrivial = set()
        self.samples = []
        self.observed = {}
        self.violations = []
        self.inconclusive = []
        self.assumptions = []
        self.rule = ""
        self.extra = {}
        self.exhaustive = None

    # -- accounting --
    def count(self, key, n=1):
        self.observed[key] = self.observed.get(key, 0) + n

    def merge_counts(self, d):
        for k, v in d.items():
            if isinstance(v, (int, float)):
                self.observed[k] = self.observed.get(k, 0) + v

    def add_case(self, case_hash, nontrivial):
        self.evaluations += 1
        if nontrivial:
            self.nontrivial.add(case_hash)

    def sample(self, s, limit=4):
        if len(self.samples) < limit:
            self.samples.append(s)

    def violation(self, v):
        self.violations.append(v)

    def inconc(self, why):
        self.inconclusive.append(why)

    def require(self, key, minimum):
        """Fail as inconclusive when the monitor observed too few relevant events."""
        if self.observed.get(key, 0) < minimum:
            self.inconc("monitor observed only %s=%s (< %s)" % (key, self.observed.get(key, 0), minimum))

    # -- finishing --
    def write_evidence(self, n_viol_new, n_known):
        import build as _b
        ev = {
            "property_id": self.prop,
            "tier": self.tier,
            "seed": self.seed,
            "level": self.level,
            "coverage": {
                "evaluations": int(self.evaluations),
                "distinct_nontrivial": int(len(self.nontrivial)) if not isinstance(self.nontrivial, int) else self.nontrivial,
                "rule": self.rule,
                "samples": self.samples,
                "monitor_observed": self.observed,
                "repo_state": _b.repo_state(),
                "inconclusive": self.inconclusive,
                "known_findings_reported": n_known,
            },
            "assumptions": self.assumptions,
            "wall_s": round(time.time() - self.t0, 2),
            "violations": n_viol_new,
        }
        if self.exhaustive is not None:
            ev["coverage"]["exhaustive"] = bool(self.exhaustive)
        ev["coverage"].update(self.extra)
        os.makedirs(os.path.join(OUT, "evidence"), exist_ok=True)
        p = os.path.join(OUT, "evidence", self.prop + ".json")
        tmp = p + ".tmp%d" % os.getpid()
        with open(tmp, "w") as f:
            json.dump(ev, f, indent=1, default=str)
        os.replace(tmp, p)

    def finish(self):
        if not self.samples:
            self.inconc("the check recorded no sample case (evidence would be invalid)")
        known = open_findings(self.prop)
        new = {}
        seen_known = {}
        for v in self.violations:
            if v.signature in known:
                seen_known.setdefault(v.signature, v)
            else:
                new.setdefault(v.signature, v)
        for sig, v in sorted(seen_known.items()):
            print("KNOWN-FINDING: property=%s %s [%s]" % (self.prop, known[sig].get("what", v.what), sig))
        for sig, v in sorted(new.items()):
            d = os.path.join(OUT, "replays", self.prop)
            os.makedirs(d, exist_ok=True)
            path = os.path.join(d, h([sig, v.witness]) + ".json")
            with open(path, "w") as f:
                json.dump({"property": self.prop, "rule": v.rule, "signature": sig, "what": v.what,
                           "tier": self.tier, "seed": self.seed, "witness": v.witness}, f, indent=1, default=str)
            print("VIOLATION property=%s replay=%s" % (self.prop, path))
            print("  rule=%s signature=%s" % (v.rule, sig))
            print("  " + v.what.replace("\n", "\n  ")[:1500])
        self.write_evidence(len(new), len(seen_known))
        summary = "%s tier=%s seed=%d evaluations=%d nontrivial=%d wall=%.1fs observed=%s" % (
            self.prop, self.tier, self.seed, self.evaluations, len(self.nontrivial),
            time.time() - self.t0, json.dumps(self.observed, sort_keys=True))
        print(summary)
        if new:
            return EXIT_VIOLATION
        if self.inconclusive:
            for w in self.inconclusive[:10]:
                print("INCONCLUSIVE: " + w)
            return EXIT_INCONCLUSIVE
        return EXIT_OK


def _call(args):
    fn, a = args
    try:
        return ("ok", fn(a))
    except Exception:
        return ("err", traceback.format_exc())


class Background(object):
    """Workers that go on beside the pmap calls of a check (long idle runs).  They run in PROCESSES of their own that are forked
    before they start anything: a daemon started by a thread of the checking process would have the write end of its stdin pipe
    inherited by every pool process forked afterwards, and would then not see end-of-file until that pool is gone - which showed
    as `hang` results whenever the first pool outlived the idle run (thorough tier of C09)."""

    def __init__(self, fn, items, nproc=4):
        self.pool = multiprocessing.Pool(max(1, min(nproc, len(items)))) if items else None
        self.res = [self.pool.apply_async(_call, ((fn, a),)) for a in items]

    def results(self):
        out = []
        try:
            for f in self.res:
                st, r = f.get()
                if st == "err":
                    raise RuntimeError("worker failed:\n" + r)
                out.append(r)
        finally:
            if self.pool:
                self.pool.terminate()
                self.pool.join()
        return out


def pmap(fn, items, chunksize=1):
    """Parallel map over processes; fn must be a module-level function."""
    items = list(items)
    n = min(jobs(), max(1, len(items)))
    if n == 1:
        return [fn(a) for a in items]
    with multiprocessing.Pool(n) as pool:
        res = pool.map(_call, [(fn, a) for a in items], chunksize)
    out = []
    for st, r in res:
        if st == "err":
            raise RuntimeError("worker failed:\n" + r)
        out.append(r)
    return out
