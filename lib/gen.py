"""History generators for the protocol checks (DESIGN.md 3.3 'Event vocabulary and generator restrictions')."""
import random
import zlib
import re

import proto

IPS4 = ["1.2.3.4", "10.0.0.1", "192.168.7.9", "127.0.0.1", "200.1.2.3", "8.8.8.8", "128.0.0.1", "255.255.255.254"]
IPS6 = ["2001:db8::1", "2001:db8:0:1::5", "fe80::1:2:3:4", "0::1", "1:2:3:4:5:6:7:8", "2001:db8::a:0:0:1", "ff02::fb", "1::",
        "2001:DB8::A", "FE80::1:2:3:4", "ABCD:EF01:2345:6789:abcd:ef01:2345:6789"]

MODESTR = ["+x", "+!", "-x", "-!", "+x!", "+!x", "+", "-", "+x-x", "+!-!", "-!+!", "++x", "+x+!", "-x-!", "+!!"]
# (bytes above 0x7f - names are bytes to the daemon, whatever encoding the network uses - also as the very first one)
ACCTS = ["alice", "Bob", "c-3", "acct_with_a_rather_long_name", "x", "jos\xe9", "\xdcnder", "\xff\xfe"]
WORDS = ["hello", "world", "a", "%s%n", "x:y", ":lead", "100%", "tab", "z" * 30, "caf\xe9", "\x80\xff"]


def text_of(rng, maxlen=60, allow_edge=True):
    n = rng.choice([1, 2, 3, 5])
    parts = [rng.choice(WORDS) for _ in range(n)]
    s = " ".join(parts)
    if allow_edge and rng.random() < 0.15:
        s = s.replace(" ", "  ", 1)
    if allow_edge and rng.random() < 0.1:
        s = s + " "
    return s[:maxlen]


def name_of(rng, lens, alphabet="abcdefghijklmnopqrstuvwxyzABCDEFXYZ0123456789-_[]"):
    n = rng.choice(lens)
    return "".join(rng.choice(alphabet) for _ in range(n))


def strtol16(s):
    """Emulates strtol/strtoul(s, &end, 16): returns (value, rest)."""
    m = re.match(r"^[ \t\n\v\f\r]*([+-]?)(0[xX])?([0-9a-fA-F]*)", s)
    sign, pfx, digits = m.group(1), m.group(2), m.group(3)
    if not digits:
        if pfx:   # "0x" with no digits: parses the "0"
            return 0, s[m.start(2) + 1:]
        return 0, s
    v = int(digits, 16)
    if sign == "-":
        v = -v
    return v, s[m.end():]


def tag_reads_as(tag):
    """(id, serial) the daemon's tag parser would read, or None when it rejects the tag."""
    v, rest = strtol16(tag)
    if not rest.startswith("_"):
        return None
    ser, rest2 = strtol16(rest[1:])
    if rest2 != "":
        return None
    v &= 0xffffffff
    if v >= 1 << 31:
        v -= 1 << 32
    return v, ser & 0xffffffff


class Fields(object):
    """Per-instance field generator with boundary lengths."""

    def __init__(self, rng, boundary=0.3):
        self.rng = rng
        self.b = boundary

    def nick(self):
        return name_of(self.rng, [1, 5, 9, 29, 30, 31, 40] if self.rng.random() < self.b else [3, 5, 8])

    def user(self):
        u = name_of(self.rng, [1, 8, 9, 10, 11, 14] if self.rng.random() < self.b else [3, 6], "abcdefghijklmnopqrstuvwxyz0123456789")
        if self.rng.random() < 0.15:
            u = "~" + u
        return u

    def ident(self):
        if self.rng.random() < 0.25:
            return None
        u = name_of(self.rng, [1, 9, 10, 11, 15] if self.rng.random() < self.b else [3, 6], "abcdefghijklmnopqrstuvwxyz0123456789")
        if self.rng.random() < 0.3:
            u = "~" + u
        return u

    def host(self):
        n = self.rng.choice([62, 63, 64, 80]) if self.rng.random() < self.b else self.rng.choice([8, 15, 25])
        lab = name_of(self.rng, [n], "abcdefghijklmnopqrstuvwxyz0123456789-.")
        return lab.strip(".") or "h"

    def real(self):
        if self.rng.random() < self.b:
            n = self.rng.choice([49, 50, 51, 70])
            return (text_of(self.rng, 200, False) * 10)[:n].rstrip() or "r"
        if self.rng.random() < 0.06:
            # a carriage return in the middle of the free text is a byte of that text (a line ends at LF, or CR LF)
            # (also when what follows it would be a line of its own: nobody announced client 4242)
            return self.rng.choice(["Real\rName", "a\rb c", "x \r y", "R\r4242 C 9.9.9.9 999 10.0.0.1 6667\r4242 H"])
        return text_of(self.rng, 40)

    def password(self, wellformed=True):
        r = self.rng
        if wellformed:
            return "%s %s %s" % (r.choice(MODESTR), r.choice(ACCTS), text_of(r, 30, False))
        # (a mode prefix that asks for +! followed by ONE word is no login either: nothing about the client changes, no hold is taken)
        return r.choice(["plainpassword", "acct pass", "x acct pass", "+x", "+x acctonly", "+!", "secret word here", "-", "+x  ", "x+ a b",
                         "+! acctonly", "+x! acctonly", "+!x  acctonly ", "-x+! acctonly", "+!-! acctonly", "+! "])

    def token(self):
        return name_of(self.rng, [4, 8, 16], "abcdefghijklmnopqrstuvwxyz0123456789")


REPLY_KINDS = ["OK", "OKacct", "NO", "AGAIN", "MORE", "junk"]


def reply_text(rng, kind):
    if kind == "OK":
        return "OK"
    if kind == "OKacct":
        a = rng.choice(ACCTS)
        sfx = rng.choice(["", "", ":1234567890", ":1234567890:42", " trailing words"])
        if rng.random() < 0.1:
            a = name_of(rng, [63, 64, 65])
        return "OK " + a + sfx
    if kind == "OKspace":
        # "OK" followed by a space but no account before the next space: vouches no account
        return rng.choice(["OK ", "OK  alice", "OK  ", "OK  alice:123 x"])
    if kind in ("NO", "AGAIN", "MORE") and rng.random() < 0.03:
        # the verb, the separating blank and an empty text: still a refusal / retry / challenge (with nothing to say)
        return kind + " "
    if kind in ("NO", "AGAIN", "MORE") and rng.random() < 0.04:
        # a text that does not fit the daemon's output line: it may be cut, but the line must still end
        return kind + " " + "".join(rng.choice("abcdefghij klmnop%:") for _ in range(rng.choice([990, 1010, 1024, 1100, 2000]))).strip()
    if kind in ("NO", "AGAIN", "MORE") and rng.random() < 0.04:
        return kind + " " + rng.choice(["go\raway", "try again\rlater", "a\r\rb"])
    if kind == "NO":
        return "NO " + text_of(rng).strip(" ") if rng.random() < 0.5 else "NO " + text_of(rng)
    if kind == "AGAIN":
        return "AGAIN " + text_of(rng)
    if kind == "MORE":
        return "MORE " + text_of(rng)
    # neither a verdict nor a challenge: the bare verbs (no blank, no text), words that begin like one, other case
    return rng.choice(["FOO", "ok", "OKAY x", "no thanks", "more x", "Again x", "NOPE", "O", "OKx y", "NO", "AGAIN", "MORE", "NOTICE hello", "MOREOVER x", "AGAINST y", "N"])


class View(object):
    """What a stray-reply generator needs to know about the daemon's state at one point of a history."""

    def __init__(self, open_, old_tags, answered):
        self.open = open_            # id -> {"tag": str|None, "awaiting": set}
        self.old_tags = old_tags     # [(id, tag, [svcs])]
        self.answered = answered     # [(svc, tag)]

    def freeze(self):
        return View({c: {"tag": st["tag"], "awaiting": set(st["awaiting"])} for c, st in self.open.items()},
                    list(self.old_tags[-50:]), list(self.answered[-30:]))


def make_stray(r, view, svcs, ids):
    """A reply / unlinked notice that is NOT owed: stale serial, not-awaited / unknown service, malformed tag.
    Returns None when the candidate could be read as a live awaited (tag, service) pair."""
    svcs = list(svcs) or ["svc.a"]
    live_pairs = set()
    for cid, st in view.open.items():
        if st["tag"]:
            pt = proto.parse_tag(st["tag"])
            for sv in st["awaiting"]:
                live_pairs.add((pt, sv))
    choice = r.random()
    svc = r.choice(svcs)
    tag = None
    waiting = [(cid, st) for cid, st in sorted(view.open.items()) if st["tag"] and st["awaiting"]]
    if choice < 0.12 and waiting:
        # a tag that differs from a live, awaited one only at its end: one hex digit less (the serial of an earlier holder of the
        # id whose text is a prefix of the newcomer's, once serials have two digits) or one digit more
        cid, st = r.choice(waiting)
        t = st["tag"]
        tag = t[:-1] if (r.random() < 0.6 and not t[:-1].endswith("_")) else t + r.choice("0123456789abcdef")
        svc = r.choice(sorted(st["awaiting"]))
        choice = 1.0
    if choice < 0.4 and view.old_tags:
        cid, tag, tsv = r.choice(view.old_tags[-50:])
        if tsv and r.random() < 0.8:
            svc = r.choice(tsv)
    elif choice < 0.6 and view.open:
        cid = r.choice(sorted(view.open))
        st = view.open[cid]
        if st["tag"]:
            tag = st["tag"]
            cands = [x for x in svcs + ["nosuch.svc", svcs[0].upper(), svcs[0] + "x", svcs[0][:-1]] if x not in st["awaiting"]]
            if not cands:
                return None
            svc = r.choice(cands)
    elif choice < 0.75 and view.answered:
        svc, tag = r.choice(view.answered[-30:])
    if tag is None:
        base = r.choice(sorted(view.open)) if view.open and r.random() < 0.7 else r.choice(list(ids))
        fam = r.choice(["%x", "%x_", "zz_1", "%x_1x", "%x_1_2", "%x_zz", "%x-1", "_", "%x__1", "g%x_1", "%x_1.", "%x_g", "%x_ffffffffffffffffffffffff", "ffffffffffffffffffffffff_1"])
        tag = fam % base if "%x" in fam else fam
    rd = tag_reads_as(tag)
    if rd is not None and (rd, svc) in live_pairs:
        return None
    if r.random() < 0.15:
        return {"t": "unlinked", "svc": svc, "tag": tag, "text": "Server not online"}
    return {"t": "reply", "svc": svc, "tag": tag, "text": reply_text(r, r.choice(REPLY_KINDS))}


class RandomHistory(object):
    """Drives a proto.Session with weighted random events."""

    DEFAULT_W = {"announce": 10, "data": 40, "password": 10, "hurry": 3, "reply": 22, "unlinked": 3, "stray": 6, "timeout": 4,
                 "disconnect": 4, "registered": 2, "stats": 2, "noise": 1, "reannounce": 3, "dupdata": 3, "reload": 0}

    def __init__(self, rng, session, ids, weights=None, boundary=0.3, reply_kinds=None, ips=None, wellformed_pw=0.8,
                 max_open=None, negative_ids=False, alt_services=None, vary_addr=0.0):
        self.rng = rng
        self.s = session
        self.ids = list(ids)
        self.w = dict(self.DEFAULT_W)
        if weights:
            self.w.update(weights)
        self.f = Fields(rng, boundary)
        self.reply_kinds = reply_kinds or REPLY_KINDS
        self.ips = ips or (IPS4 + IPS6)
        self.wellformed_pw = wellformed_pw
        self.sent = {}       # id -> set of data items sent
        self.addr_of = {}    # id -> (ip, port) of its last announcement
        self.vary_addr = vary_addr   # probability that a re-used id comes back with another address / port (needs step attribution)
        self.max_open = max_open
        self.alt_services = alt_services or []
        self.answered = []   # (svc, tag) pairs that were answered once already

    def announce_ev(self, cid):
        if cid not in self.addr_of or self.rng.random() < self.vary_addr:
            self.addr_of[cid] = (self.rng.choice(self.ips), self.rng.choice([1, 1024, 40000, 65535, 0, 6667, 113]))
        ip, port = self.addr_of[cid]
        self.sent[cid] = set()
        return {"t": "announce", "id": cid, "ip": ip, "port": port}

    def data_ev(self, cid, item=None):
        r = self.rng
        todo = [x for x in ("host", "ident", "nick", "userinfo") if x not in self.sent.get(cid, set())]
        if item is None:
            if not todo:
                return None
            item = r.choice(todo)
        self.sent.setdefault(cid, set()).add(item)
        if item == "host":
            if r.random() < 0.25:
                return {"t": "nohost", "id": cid}
            return {"t": "host", "id": cid, "name": self.f.host()}
        if item == "ident":
            return {"t": "ident", "id": cid, "name": self.f.ident()}
        if item == "nick":
            return {"t": "nick", "id": cid, "name": self.f.nick()}
        return {"t": "userinfo", "id": cid, "user": self.f.user(), "real": self.f.real()}

    def stray_ev(self):
        view = View(self.s.open, self.s.old_tags, self.answered)
        return make_stray(self.rng, view, [n for n, p in self.s.config.services], self.ids)

    def pick(self):
        r = self.rng
        s = self.s
        cats = list(self.w)
        cat = r.choices(cats, [self.w[c] for c in cats])[0]
        openids = sorted(s.open)
        if cat == "announce":
            free = [i for i in self.ids if i not in s.open]
            if not free or (self.max_open and len(openids) >= self.max_open):
                return None
            return self.announce_ev(r.choice(free))
        if cat == "reannounce":
            if not openids:
                return None
            return self.announce_ev(r.choice(openids))
        if cat == "stats":
            return {"t": "stats"}
        if cat == "noise":
            waiting = [(c, sv) for c in openids for sv in sorted(s.open[c]["awaiting"]) if s.open[c]["tag"]]
            if waiting and r.random() < 0.4:
                # a reply / unlinked notice that lacks its text parameter is not a reply: nothing is answered by it
                c, sv = r.choice(waiting)
                return {"t": "noise", "line": "-1 %s %s %s" % (r.choice("Xx"), sv, s.open[c]["tag"])}
            if openids and r.random() < 0.5:
                # an announcement that lacks parameters is not an announcement: a live client of that id is not touched by it
                cid = r.choice(openids)
                # (and the server's complaint about an earlier message of ours - `E <type> :<text>` - is only a complaint: the request
                # held under that id, possibly a newer client's, is not touched by it)
                return {"t": "noise", "line": r.choice(["%d C 1.2.3.4", "%d C", "%d C 1.2.3.4 5 6.7.8.9", "%d C 1.2.3.4 5", "%d E Mismatch :Got o for wrong client", "%d E Done :D after T",
                                                        "%d E Garbage :x", "%d E Missing :id", "%d E Invalid :bad", "%d E Done", "%d E"]) % cid}
            # (numbers no integer type holds: whatever the C library reports about them must not linger)
            return {"t": "noise", "line": r.choice(["-1 M irc.example.net 20", "-1 E NOTICE :something", "-1 ? config", "-1 M srv",
                                                    "-1 M irc.example.net 99999999999999999999999", "-1 X nosuch.svc ffffffffffffffffffffffff_ffffffffffffffffffffffff :OK",
                                                    "99999999999999999999999 D", "-99999999999999999999999 N host"])}
        if cat == "stray":
            return self.stray_ev()
        if cat == "reload":
            if not self.alt_services:
                return None
            return {"t": "reload", "services": r.choice(self.alt_services)}
        if not openids:
            return None
        cid = r.choice(openids)
        st = s.open[cid]
        if cat == "data":
            return self.data_ev(cid)
        if cat == "dupdata":
            return self.data_ev(cid, r.choice(["host", "ident", "nick", "userinfo"]))
        if cat == "password":
            if st["challenge"]:
                return {"t": "password", "id": cid, "text": self.f.token()}
            return {"t": "password", "id": cid, "text": self.f.password(r.random() < self.wellformed_pw)}
        if cat == "hurry":
            return {"t": "hurry", "id": cid}
        if cat == "timeout":
            return {"t": "timeout", "id": cid}
        if cat == "disconnect":
            # (now and then the server says why - a trailing parameter that changes nothing: the client is withdrawn all the same)
            why_ = zlib.crc32(("%d/%d" % (cid, len(s.trace.steps))).encode()) % 6
            return dict({"t": "disconnect", "id": cid}, **({"text": ["Connection reset by peer", "", "Ping timeout: 240 seconds"][why_ // 2 % 3]} if why_ < 2 else {}))
        if cat == "registered":
            why_ = zlib.crc32(("%d/%d/T" % (cid, len(s.trace.steps))).encode()) % 6
            return dict({"t": "registered", "id": cid}, **({"text": ["registered", "x y"][why_ % 2]} if why_ < 2 else {}))
        if cat in ("reply", "unlinked"):
            cands = [(c, sv) for c in openids for sv in sorted(s.open[c]["awaiting"])]
            if not cands:
                return None
            c, sv = r.choice(cands)
            tag = s.open[c]["tag"]
            if tag != tag.upper() and zlib.crc32(("%s/%s" % (tag, sv)).encode()) % 16 == 0:
                # a hexadecimal number is the same number in capitals: now and then the tag comes back as `1A_2F`
                tag = tag.upper()
            if cat == "unlinked":
                self.answered.append((sv, tag))
                return {"t": "unlinked", "svc": sv, "tag": tag, "text": "Server not online"}
            kind = r.choice(self.reply_kinds)
            if kind != "junk":
                self.answered.append((sv, tag))
            return {"t": "reply", "svc": sv, "tag": tag, "text": reply_text(r, kind)}
        return None

    def run(self, n):
        done = 0
        tries = 0
        while done < n and tries < n * 20 and not self.s.dead:
            tries += 1
            ev = self.pick()
            if ev is None:
                continue
            self.s.do(ev)
            done += 1
        return done


def reload_tables(rng, services, extra=2, n=4):
    """Service tables a SIGUSR1 reload may switch to: subsets of one universe (the initial table plus `extra` new names) in
    which a name keeps its protocol, so that what a retired service still owes stays well defined."""
    names = ["login.svc", "drone.svc", "ipr.svc", "combo.svc", "Alpha.Net", "zeta.example.org", "late.svc", "extra.example.net"]
    uni = [tuple(x) for x in services]
    for nm in names:
        if len(uni) >= len(services) + extra:
            break
        if nm.lower() not in [u[0].lower() for u in uni]:
            uni.append((nm, rng.choice(proto.PROTOS)))
    out = []
    for _ in range(n):
        k = rng.randint(0, len(uni))
        out.append(sorted(rng.sample(uni, k), key=lambda x: uni.index(x)))
    return out


def service_tables(rng, k=None):
    """A random service table (names are distinct case-insensitively)."""
    names = ["login.svc", "drone.svc", "ipr.svc", "combo.svc", "Alpha.Net", "zeta.example.org"]
    k = k if k is not None else rng.choice([0, 1, 1, 2, 2, 3, 4])
    ns = rng.sample(names, k)
    return [(n, rng.choice(proto.PROTOS)) for n in ns]
