"""Driver for the h_conf harness: builds it, runs command scripts, parses per-case records."""
import os
import re
import shutil
import tempfile

import build
import daemon
import hrun


def build_exe(tag, variant="asan"):
    out = build.fresh_dir(tag)
    srcs = ["src/" + s for s in build.CORE_SRCS if s != "main.c"]
    return build.build_harness(out, variant, "h_conf", "h_conf.c", srcs, link_extra=("-Wl,--wrap=fread", "-Wl,--wrap=read"))


class CaseRec(object):
    __slots__ = ("name", "status", "loads", "dumps", "hooks", "same", "text", "sanitizer", "other")

    def __init__(self, name):
        self.name = name
        self.status = None
        self.loads = []
        self.dumps = []
        self.hooks = []
        self.same = []     # list of (bool, before_lines, after_lines)
        self.text = []
        self.sanitizer = []
        self.other = []


def parse_output(out):
    recs = []
    cur = None
    lines = out.split("\n")
    i = 0
    n = len(lines)
    while i < n:
        ln = lines[i]
        if ln.startswith("CASE-BEGIN "):
            cur = CaseRec(ln[11:])
            recs.append(cur)
        elif cur is None:
            pass
        elif ln.startswith("CASE-END "):
            cur.status = ln.split(" ")[-1]
            txt = "\n".join(cur.text)
            if "Sanitizer" in txt or "runtime error" in txt:
                cur.sanitizer = daemon.parse_sanitizer(txt)
            cur = None
        elif ln.startswith("LOAD rc="):
            cur.loads.append(int(ln[8:]))
        elif ln == "DUMP-BEGIN":
            j = i + 1
            d = []
            while j < n and lines[j] != "DUMP-END" and not lines[j].startswith("CASE-END "):
                d.append(lines[j])
                j += 1
            cur.dumps.append(d)
            i = j if (j < n and lines[j] == "DUMP-END") else j - 1
        elif ln == "HOOKS-BEGIN":
            j = i + 1
            d = []
            while j < n and lines[j] != "HOOKS-END" and not lines[j].startswith("CASE-END "):
                d.append(lines[j])
                j += 1
            cur.hooks.append(d)
            i = j if (j < n and lines[j] == "HOOKS-END") else j - 1
        elif ln == "SAME yes":
            cur.same.append((True, [], []))
        elif ln == "SAME no":
            j = i + 1
            before, after = [], []
            tgt = None
            while j < n and lines[j] != "AFTER-END" and not lines[j].startswith("CASE-END "):
                if lines[j] == "BEFORE-BEGIN":
                    tgt = before
                elif lines[j] == "BEFORE-END":
                    tgt = None
                elif lines[j] == "AFTER-BEGIN":
                    tgt = after
                elif tgt is not None:
                    tgt.append(lines[j])
                j += 1
            cur.same.append((False, before, after))
            i = j if (j < n and lines[j] == "AFTER-END") else j - 1
        else:
            if ln.startswith("PARSE ") or ln.startswith("FATAL-CHILD") or ln.startswith("UNKNOWN-COMMAND") or ln.startswith("FDS ") or ln.startswith("FAULT "):
                cur.other.append(ln)
            cur.text.append(ln)
        i += 1
    return recs


class Batch(object):
    """Collects cases (script text + files) and runs them through one h_conf process."""

    def __init__(self, exe, leaks=True, timeout_case=20):
        self.exe = exe
        self.leaks = leaks
        self.timeout_case = timeout_case
        self.dir = tempfile.mkdtemp(prefix="hconf-", dir=daemon.SCRATCH_ROOT)
        self.script = []
        self.nfiles = 0
        self.ncases = 0

    def add_file(self, data, mtime=None):
        self.nfiles += 1
        p = os.path.join(self.dir, "f%d.conf" % self.nfiles)
        with open(p, "wb") as f:
            f.write(data)
        if mtime is not None:
            os.utime(p, (mtime, mtime))
        return p

    def case(self, name, commands):
        self.ncases += 1
        self.script.append("CASE %s" % name)
        self.script.extend(commands)
        self.script.append("END")

    def run(self):
        data = ("\n".join(self.script) + "\n").encode("latin-1")
        r = hrun.run([self.exe, str(self.timeout_case)], stdin_data=data, leaks=self.leaks,
                     timeout=120 + self.ncases * 2, cwd=self.dir)
        recs = parse_output(r.out)
        return recs, r

    def cleanup(self):
        shutil.rmtree(self.dir, ignore_errors=True)


def strip_logs(dump):
    """Remove the always-present logs section from a dump."""
    return [l for l in dump if not l.startswith('N "logs"')]


def case_crash_events(rec):
    """(kind, func) events for a case: sanitizer reports, signals, alarm."""
    ev = [(s["kind"], s["func"]) for s in rec.sanitizer]
    if rec.status == "timeout":
        ev.append(("hang", "?"))
    elif rec.status and rec.status.startswith("signal=") and not rec.sanitizer:
        ev.append(("signal:" + rec.status[7:], "?"))
    elif rec.status and rec.status.startswith("exit=") and rec.status != "exit=0" and not rec.sanitizer:
        ev.append(("exit:" + rec.status[5:], "?"))
    elif rec.status is None:
        ev.append(("harness-lost-case", "?"))
    return ev
