"""Configuration trees: generation, rendering with layout features, expected dumps.

A tree is an ordered list of entries (name, node); node is one of
  ("str", bytes) ("list", [bytes...]) ("inaddr", bytes, bytes) ("obj", [entries])
Names are bytes.  The *meaning* of a tree (what the parser should produce) is
computed by `normalise`: later duplicates override, repeated objects merge,
keys compare case-insensitively per (name, kind).
"""
import random

KIND_ORDER = {"str": 0, "inaddr": 1, "list": 2, "obj": 3}
TOKEN_CHARS = b"abcdefghijklmnopqrstuvwxyzABCDEFGHIJKLMNOPQRSTUVWXYZ0123456789-._#"


def lower(b):
    return bytes(c + 32 if 65 <= c <= 90 else c for c in b)


def put_hex(b):
    if b is None:
        return "NULL"
    out = ['"']
    for c in b:
        if 32 < c < 127 and c not in (37, 34):
            out.append(chr(c))
        else:
            out.append("%%%02x" % c)
    out.append('"')
    return "".join(out)


def pct(b):
    """%XX-encode an argument for the h_conf command script (None -> %00)."""
    if b is None:
        return "%00"
    if isinstance(b, str):
        b = b.encode("latin-1")
    if b == b"":
        return "%_"
    return "".join(chr(c) if (48 <= c <= 57 or 65 <= c <= 90 or 97 <= c <= 122 or c in b"-._") else "%%%02x" % c for c in b)


# ---- meaning -----------------------------------------------------------------

def normalise(entries):
    """Return dict key -> (name_as_first_written, node) with parser semantics applied.
    Object nodes become ("objn", dict)."""
    out = {}
    for name, node in entries:
        key = (lower(name), KIND_ORDER[node[0]])
        if node[0] == "obj":
            sub = normalise(node[1])
            if key in out:
                out[key] = (out[key][0], ("objn", _merge(out[key][1][1], sub)))
            else:
                out[key] = (name, ("objn", sub))
        elif key in out:
            out[key] = (out[key][0], node)
        else:
            out[key] = (name, node)
    return out


def _merge(a, b):
    m = dict(a)
    for k, v in b.items():
        if k in m and v[1][0] == "objn" and m[k][1][0] == "objn":
            m[k] = (m[k][0], ("objn", _merge(m[k][1][1], v[1][1])))
        elif k in m:
            m[k] = (m[k][0], v[1])
        else:
            m[k] = v
    return m


def dump_lines(norm, prefix="", present=1, specified=0):
    """The h_conf DUMP text for an unregistered tree."""
    lines = []
    for key in sorted(norm):
        name, node = norm[key]
        path = (prefix + "/" if prefix else "") + put_hex(name)
        if node[0] == "str":
            lines.append("N %s str p=%d s=%d v=%s" % (path, present, specified, put_hex(node[1])))
        elif node[0] == "inaddr":
            lines.append("N %s inaddr p=%d s=%d h=%s sv=%s" % (path, present, specified, put_hex(node[1]), put_hex(node[2])))
        elif node[0] == "list":
            lines.append("N %s list p=%d s=%d v=%d[%s]" % (path, present, specified, len(node[1]),
                                                           ",".join(put_hex(x) for x in node[1])))
        else:
            lines.append("N %s obj p=%d s=%d n=%d" % (path, present, specified, len(node[1])))
            lines += dump_lines(node[1], path, present, specified)
    return lines


# ---- generation ----------------------------------------------------------------

def gen_name(rng, pool=None):
    if pool:
        return rng.choice(pool)
    n = rng.randint(1, 8)
    return bytes(rng.choice(TOKEN_CHARS) for _ in range(n))


def gen_string(rng, binary=False, maxlen=12):
    n = rng.choice([0, 1, 1, 2, 3, 5, 8, maxlen])
    if binary:
        alphabet = list(range(1, 256))
        hot = [34, 92, 10, 13, 9, 32, 47, 42, 123, 125, 40, 41, 44, 59, 35, 0x41, 0x78, 7, 8, 12, 11, 255, 128]
        return bytes(rng.choice(hot) if rng.random() < 0.35 else rng.choice(alphabet) for _ in range(n))
    return bytes(rng.choice(TOKEN_CHARS) for _ in range(max(1, n)))


def gen_tree(rng, depth=2, width=4, names=None, binary=False, kinds=("str", "list", "inaddr", "obj"), top=True):
    entries = []
    used = set()
    for _ in range(rng.randint(1, width)):
        name = gen_name(rng, names)
        if lower(name) in used or (top and lower(name) in (b"logs", b"core")):
            continue
        used.add(lower(name))
        k = rng.choice(kinds if depth > 0 else [x for x in kinds if x != "obj"] or ["str"])
        if top and names is None and rng.random() < 0.6:
            k = "obj" if depth > 0 else k
        if k == "str":
            node = ("str", gen_string(rng, binary))
        elif k == "list":
            node = ("list", [gen_string(rng, binary) for _ in range(rng.choice([0, 1, 2, 3, 5]))])
        elif k == "inaddr":
            node = ("inaddr", gen_string(rng, binary) or b"h", gen_string(rng, binary) or b"p")
        else:
            node = ("obj", gen_tree(rng, depth - 1, width, names, binary, kinds, top=False))
        entries.append((name, node))
    return entries


# ---- rendering -------------------------------------------------------------------

FEATURES = [
    "quote_all",        # quote every string that could be bare
    "escapes",          # use \n \t ... and \xHH escapes inside quoted strings (else raw bytes)
    "esc_unknown",      # backslash before an ordinary character (\q means q)
    "comma_list",       # lists of >=2 items without parentheses
    "term_semicolon",   # ';' after entries
    "term_newline",     # '\n' after entries
    "last_no_term",     # no terminator between the last entry of an object and '}'
    "tight_brace",      # no whitespace before '}' / after '{'
    "eof_no_newline",   # file ends right after the last top-level entry
    "c_comments",       # /* */ at token boundaries
    "cpp_comments",     # // to end of line at line ends
    "tabs_cr",          # tabs and CR as whitespace, blank lines
    "repeat_key",       # an earlier, overridden duplicate of some string/list entries
    "repeat_object",    # objects split into two occurrences that must merge
    "case_keys",        # duplicates/object repeats use different letter case
    "one_line",         # everything of an object on one line (';' separators)
]


def needs_quote(b):
    return len(b) == 0 or any(c not in TOKEN_CHARS for c in b)


def render_string(b, f, rng, force_quote=False):
    if not needs_quote(b) and not force_quote and not (f.get("quote_all") and rng.random() < 0.8):
        return b
    out = bytearray(b'"')
    simple = {7: b"a", 8: b"b", 12: b"f", 10: b"n", 13: b"r", 9: b"t", 11: b"v"}
    for i, c in enumerate(b):
        nxt = b[i + 1] if i + 1 < len(b) else None
        if c == 34 or c == 92:
            out += b"\\" + bytes([c])
        elif f.get("escapes") and c in simple and rng.random() < 0.8:
            out += b"\\" + simple[c]
        elif f.get("escapes") and (c < 32 or c > 126 or rng.random() < 0.1):
            out += b"\\x%02x" % c if rng.random() < 0.5 else b"\\x%02X" % c
        elif f.get("esc_unknown") and (32 < c < 127 or c >= 128) and chr(c) not in "abfnrtvx\"\\" and rng.random() < (0.2 if c < 128 else 0.5):
            out += b"\\" + bytes([c])
        else:
            out.append(c)
    out += b'"'
    return bytes(out)


class Renderer(object):
    def __init__(self, features, rng):
        self.f = features
        self.rng = rng

    def ws(self, nl_ok=False):
        r, f = self.rng, self.f
        s = b" "
        if f.get("tabs_cr") and r.random() < 0.4:
            # (every character the C locale's isspace() knows: also form feed - the ^L page separator - and vertical tab)
            s = r.choice([b"\t", b"  ", b" \t ", b"\r ", b" \r", b"\t", b"  ", b" \t ", b"\r ", b" \r", b"\x0c", b" \x0b", b"\x0b\x0c "])
        if f.get("c_comments") and r.random() < 0.3:
            if r.random() < 0.3:
                s = b""        # glued to the token before it
            s += r.choice([b"/* c */", b"/**/", b"/* * / ** */", b"/* \"q\" { ( , ; */", b"/** doc **/", b"/***/", b"/****/", b"/* x **/", b"/*** y ***/", b"/* a */ /* b **/", b"/* / * **/"]) + r.choice([b" ", b" ", b""])
        return s

    def term(self, last, nested):
        """Terminator after an entry."""
        r, f = self.rng, self.f
        if last and nested and f.get("last_no_term"):
            return b""
        opts = []
        if f.get("term_semicolon"):
            opts.append(b";")
        if f.get("term_newline") and not f.get("one_line"):
            opts.append(b"\n")
        if f.get("term_semicolon") and f.get("term_newline") and not f.get("one_line"):
            opts.append(b";\n")
        if not opts:
            opts = [b"\n"] if not f.get("one_line") else [b";"]
        t = r.choice(opts)
        if f.get("cpp_comments") and t.endswith(b"\n") and r.random() < 0.4:
            # (now and then glued to the token before it: a comment needs no blank in front of it)
            t = t[:-1] + (b" " if r.random() < 0.65 else b"") + b"// note ; } \" (\n"
        if f.get("tabs_cr") and t.endswith(b"\n") and r.random() < 0.3:
            t += r.choice([b"\n", b"\r\n", b" \n", b"\t\n"])
        return t

    def entries(self, entries, nested, indent):
        r, f = self.rng, self.f
        out = bytearray()
        ents = list(entries)
        # feature: repeat keys / objects
        expanded = []
        for name, node in ents:
            def variant(n):
                if f.get("case_keys") and r.random() < 0.7:
                    return bytes((c ^ 32) if (65 <= c <= 90 or 97 <= c <= 122) and r.random() < 0.5 else c for c in n)
                return n
            if node[0] in ("str", "list", "inaddr") and f.get("repeat_key") and r.random() < 0.4:
                if node[0] == "str":
                    dummy = ("str", b"overridden")
                elif node[0] == "list":
                    dummy = ("list", [b"x", b"y", b"z"])
                else:
                    dummy = ("inaddr", b"oldhost", b"1")
                expanded.append((variant(name), dummy))
                expanded.append((name, node))
            elif node[0] == "obj" and f.get("repeat_object") and len(node[1]) >= 2 and r.random() < 0.6:
                k = r.randint(1, len(node[1]) - 1)
                expanded.append((name, ("obj", node[1][:k])))
                expanded.append((variant(name), ("obj", node[1][k:])))
            else:
                expanded.append((name, node))
        for idx, (name, node) in enumerate(expanded):
            last = idx == len(expanded) - 1
            pad = b"" if f.get("one_line") else b" " * indent
            out += pad + render_string(name, f, r)
            out += self.ws()
            if node[0] == "str":
                out += render_string(node[1], f, r)
            elif node[0] == "inaddr":
                out += render_string(node[1], f, r) + self.ws() + render_string(node[2], f, r)
            elif node[0] == "list":
                items = node[1]
                if f.get("comma_list") and len(items) >= 2 and r.random() < 0.8:
                    sep = b"," + (self.ws() if r.random() < 0.7 else b"")
                    out += sep.join(render_string(x, f, r) for x in items)
                else:
                    # (the separators are chosen before joining: an item may itself contain ", ")
                    if f.get("tabs_cr") and r.random() < 0.3:
                        inner = b" " + b",\n  ".join(render_string(x, f, r) for x in items) + b"\n"
                    else:
                        inner = (b"," + (b" " if r.random() < 0.7 else b"")).join(render_string(x, f, r) for x in items)
                    out += b"(" + inner + b")"
            else:
                inner = self.entries(node[1], True, indent + 2)
                if f.get("tight_brace"):
                    out += b"{" + inner.lstrip(b" ") + b"}"
                elif f.get("one_line"):
                    out += b"{ " + inner + b" }"
                else:
                    out += b"{\n" + inner + (b"" if inner.endswith(b"\n") else b"\n") + b" " * indent + b"}"
            t = self.term(last, nested)
            if t == b"" and not f.get("tight_brace") and f.get("one_line"):
                t = b""
            out += t
            if f.get("one_line") and not last and not t.endswith(b"\n"):
                out += b" "
        return bytes(out)

    def file(self, entries):
        data = self.entries(entries, False, 0)
        if self.f.get("eof_no_newline"):
            data = data.rstrip(b"\n\r\t ;")
            # the last top-level entry then has no terminator at all
        elif not data.endswith(b"\n"):
            data += b"\n"
        return data


def render(entries, features, seed):
    return Renderer(features, random.Random(seed)).file(entries)


CONSERVATIVE = {"quote_all": 1, "escapes": 1, "term_semicolon": 1, "term_newline": 1}


def render_conservative(entries, seed=0):
    """One layout the parser is known to read: everything quoted, parenthesised lists, ';\\n' terminators."""
    rng = random.Random(seed)
    f = dict(CONSERVATIVE)

    def ents(es, indent):
        out = bytearray()
        for name, node in es:
            out += b" " * indent + render_string(name, f, rng, True) + b" "
            if node[0] == "str":
                out += render_string(node[1], f, rng, True)
            elif node[0] == "inaddr":
                out += render_string(node[1], f, rng, True) + b" " + render_string(node[2], f, rng, True)
            elif node[0] == "list":
                out += b"(" + b", ".join(render_string(x, f, rng, True) for x in node[1]) + b")"
            else:
                out += b"{\n" + ents(node[1], indent + 2) + b" " * indent + b"}"
            out += b";\n"
        return bytes(out)
    return ents(entries, 0)
