"""IAuth line protocol: event rendering, output grammar, live session against the real daemon.

Events are dicts with key "t":
  announce(id, ip, port, lip, lport)  host(id,name)  nohost(id)  ident(id,name|None)  nick(id,name)
  userinfo(id,user,real)  password(id,text)  hurry(id)  disconnect(id)  registered(id)
  reply(svc,tag,text)  unlinked(svc,tag,text)  timeout(id)  stats  config  audit  noise(line)
"""
import ipaddress
import re

import daemon

PROTOS = ("login", "login-ipr", "dronecheck", "combined")
LOGIN_TYPES = ("login", "login-ipr", "combined")
UNLINKED_TEXT = "The login server is currently disconnected.  Please excuse the inconvenience."


def render(ev):
    t = ev["t"]
    if t == "announce":
        return "%d C %s %d %s %d" % (ev["id"], ev["ip"], ev["port"], ev.get("lip", "10.0.0.1"), ev.get("lport", 6667))
    if t == "host":
        return "%d N %s" % (ev["id"], ev["name"])
    if t == "nohost":
        return "%d d" % ev["id"]
    if t == "ident":
        return "%d u %s" % (ev["id"], ev["name"]) if ev.get("name") else "%d u" % ev["id"]
    if t == "nick":
        return "%d n %s" % (ev["id"], ev["name"])
    if t == "userinfo":
        return "%d U %s :%s" % (ev["id"], ev["user"], ev["real"])
    if t == "password":
        return "%d P :%s" % (ev["id"], ev["text"])
    if t == "hurry":
        return "%d H" % ev["id"]
    if t == "disconnect":
        return ("%d D :%s" % (ev["id"], ev["text"])) if "text" in ev else "%d D" % ev["id"]
    if t == "registered":
        return ("%d T :%s" % (ev["id"], ev["text"])) if "text" in ev else "%d T" % ev["id"]
    if t == "reply":
        return "-1 X %s %s :%s" % (ev["svc"], ev["tag"], ev["text"])
    if t == "unlinked":
        return "-1 x %s %s :%s" % (ev["svc"], ev["tag"], ev.get("text", "Server not online"))
    if t == "timeout":
        return "%d # timeout" % ev["id"]
    if t == "stats":
        return "-1 ? stats"
    if t == "config":
        return "-1 ? config"
    if t == "audit":
        return "-1 # audit"
    if t == "noise":
        return ev["line"]
    if t == "reload":
        return "(SIGUSR1 reload with services %s%s)" % (ev["services"], (" rules %s" % (ev["rules"],)) if ev.get("rules") is not None else "")
    raise ValueError(t)


# ---- output grammar (from the iauth_send call sites) -------------------------------

ADDR = r"[0-9a-fA-F:.]+"
CLIENT_RE = re.compile(r"^([oUuNIMCkDRd]) (-?\d+) (" + ADDR + r") (\d+)(?: (.*))?$")
X_RE = re.compile(r"^X (\S+) (\S+) :(.*)$")
GLOBAL_RES = [
    ("V", re.compile(r"^V :\S.*$")),
    ("a", re.compile(r"^a$")),
    ("A", re.compile(r"^A \S+ :.*$")),
    ("s", re.compile(r"^s$")),
    ("S", re.compile(r"^S \S+ :.*$")),
    ("O", re.compile(r"^O [ARSTUW]+$")),
    ("G", re.compile(r"^G -?\d+$")),
    (">", re.compile(r"^> :.*$")),
]
CLIENT_TAIL = {
    "o": re.compile(r"^\S+$"), "U": re.compile(r"^\S*$"), "u": re.compile(r"^\S+$"), "N": re.compile(r"^\S+$"),
    "I": re.compile(r"^" + ADDR + r"$"), "M": re.compile(r"^:[+-]\S*$"), "C": re.compile(r"^:.*$"), "k": re.compile(r"^:.*$"),
    "D": re.compile(r"^(\S+)?$"), "R": re.compile(r"^\S+( \S+)?$"), "d": re.compile(r"^$"),
}


def classify(line):
    """Returns dict(kind=..., ...) or None when the line is not a valid IAuth message."""
    m = CLIENT_RE.match(line)
    if m:
        cmd, cid, addr, port, tail = m.group(1), int(m.group(2)), m.group(3), int(m.group(4)), m.group(5)
        if tail is None:
            tail = ""
            if line.endswith(" "):
                return None
        if not CLIENT_TAIL[cmd].match(tail):
            # "U" with an empty name is printed as "U id addr port " (trailing space)
            return None
        return {"kind": "client", "cmd": cmd, "id": cid, "addr": addr, "port": port, "tail": tail}
    m = X_RE.match(line)
    if m:
        return {"kind": "xquery", "svc": m.group(1), "tag": m.group(2), "text": m.group(3)}
    for k, rx in GLOBAL_RES:
        if rx.match(line):
            return {"kind": "global", "cmd": k, "text": line[2:]}
    return None


def parse_tag(tag):
    m = re.match(r"^([0-9a-fA-F]+)_([0-9a-fA-F]+)$", tag)      # (a service may hand the tag back with its hex digits in capitals)
    if not m:
        return None
    cid = int(m.group(1), 16)
    if cid >= 1 << 31:
        cid -= 1 << 32
    return cid, int(m.group(2), 16)


def addr_value(text):
    """128-bit value the daemon associates with an announced address text (IPv4 -> IPv4-mapped)."""
    try:
        a = ipaddress.ip_address(text)
    except ValueError:
        return None
    if a.version == 4:
        return (0xffff << 32) | int(a)
    v = int(a)
    # IPv4-compatible (::a.b.c.d with non-zero high half of the v4 part) canonicalises to mapped
    if v >> 32 == 0 and (v >> 16) & 0xffff:
        return (0xffff << 32) | v
    return v


def announced_value(text):
    """The value of an address as the SERVER may write it: like addr_value, but octets may carry leading zeros (read as decimal,
    `010.1.2.3` is 10.1.2.3); for a text that denotes no address at all (`1.2.3`, a host name) the result is "ANY": what the daemon
    makes of it is not specified - only that it goes on writing well-formed address texts."""
    v = addr_value(text)
    if v is not None:
        return v
    m = re.match(r"^(0::|0::ffff:|0:0:0:0:0:ffff:)?(\d{1,4})\.(\d{1,4})\.(\d{1,4})\.(\d{1,4})$", text)
    if m and all(int(g) < 256 for g in m.groups()[1:]):
        return addr_value((m.group(1) or "") + ".".join(str(int(g)) for g in m.groups()[1:]))
    return "ANY"


PW_RE = re.compile(r"^((?:[+-][x!]*)+) +(\S+ .*)$", re.S)


def password_shape(text):
    """(modes string, 'account password...') for a well-formed password, else None."""
    m = PW_RE.match(text)
    if not m:
        return None
    return m.group(1), m.group(2)


def apply_modes(modes, modestr):
    """Net effect of a mode string on the set of requested modes."""
    out = set(modes)
    sign = None
    for ch in modestr:
        if ch in "+-":
            sign = ch
        elif ch in "x!":
            if sign == "+":
                out.add(ch)
            elif sign == "-":
                out.discard(ch)
    return out


# ---- live session -------------------------------------------------------------------

class Config(object):
    def __init__(self, services=(), timeout=None, rules=None, use_class=False):
        self.services = list(services)      # [(name, proto)]
        self.timeout = timeout              # seconds or None
        self.rules = rules or []            # see classmodel
        self.use_class = use_class or bool(rules)
        self.omit_xquery = False            # True: render no iauth_xquery section at all
        self.modules = None                 # explicit `modules ( ... )` list (order matters to the loader, not to the properties)
        self.logs = None                    # body of a `logs { }` section (where the log lines go changes nothing on the server channel)

    def text(self, moddir):
        import classmodel
        return daemon.default_conf(moddir, modules=self.modules or (("iauth_class",) if self.use_class else ("iauth_xquery",)),
                                   timeout=self.timeout, services=(None if self.omit_xquery else self.services),
                                   rules_text=classmodel.render_rules(self.rules) if self.rules else "", logs_text=self.logs or "")

    def proto_of(self, svc):
        for n, p in self.services:
            if n == svc:
                return p
        return None

    def to_json(self):
        d = {"services": self.services, "timeout": self.timeout, "rules": self.rules, "use_class": self.use_class}
        if self.modules:
            d["modules"] = list(self.modules)
        if self.logs:
            d["logs"] = self.logs
        return d

    @staticmethod
    def from_json(d):
        c = Config([tuple(x) for x in d["services"]], d["timeout"], d.get("rules"), d.get("use_class", False))
        if d.get("modules"):
            c.modules = tuple(d["modules"])
        c.logs = d.get("logs")
        return c


class Trace(object):
    def __init__(self, config, banner):
        self.config = config
        self.banner = banner
        self.steps = []       # (event dict, [output lines])
        self.result = None    # daemon.Result.describe()
        self.died_at = None

    def to_json(self):
        return {"config": self.config.to_json(), "banner": self.banner, "steps": self.steps, "result": self.result, "died_at": self.died_at}

    @staticmethod
    def from_json(d):
        t = Trace(Config.from_json(d["config"]), d["banner"])
        t.steps = [(e, o) for e, o in d["steps"]]
        t.result = d.get("result")
        t.died_at = d.get("died_at")
        return t


class Session(object):
    """Lock-step session; records the trace; keeps the little state a generator needs."""

    def __init__(self, build, config, leaks=True, env=None, transport=None, link=None):
        self.config = config
        self.d = daemon.Daemon(build, config.text(build["moddir"]), leaks=leaks, env=env, transport=transport, link=link)
        self.dead = False
        try:
            banner = self.d.start()
        except (daemon.Died, daemon.Hang):
            banner = list(self.d.pending_lines)
            self.dead = True
        self.trace = Trace(config, banner)
        # generator-side view
        self.open = {}       # id -> dict(tag=None, queries={svc: n}, awaiting=set, challenge=bool, sent=set())
        self.old_tags = []   # (id, tag, svcs) of departed instances
        self.res = None

    def do(self, ev):
        if self.dead:
            return None
        line = render(ev)
        try:
            if ev["t"] == "reload":
                newcfg = Config([tuple(x) for x in ev["services"]], ev["timeout"] if "timeout" in ev else self.config.timeout,
                                ev["rules"] if ev.get("rules") is not None else self.config.rules, self.config.use_class)
                newcfg.modules = self.config.modules
                newcfg.logs = self.config.logs
                out = self.d.reload(newcfg.text(self.d.build["moddir"]))
                out = [l for l in out if not l.startswith("#verif")]
                self.config = newcfg
            else:
                out = self.d.step(line)
        except (daemon.Died, daemon.Hang):
            out = list(self.d.pending_lines)
            self.dead = True
            self.trace.died_at = len(self.trace.steps)
        self.trace.steps.append((ev, out))
        self._track(ev, out)
        return out

    def do_nosync(self, ev):
        """Write the line WITHOUT a following sync line (so that it really is the last thing the daemon reads before a pause);
        whatever it causes is attributed to the next synchronised step."""
        if self.dead:
            return
        try:
            self.d.raw((render(ev) + "\n").encode("latin-1"))
        except (daemon.Died, daemon.Hang):
            self.dead = True
            self.trace.died_at = len(self.trace.steps)
        self.trace.steps.append((ev, []))
        self._track(ev, [])

    def _track(self, ev, out):
        t = ev["t"]
        if t == "announce":
            self._depart(ev["id"])
            self.open[ev["id"]] = {"tag": None, "queries": {}, "awaiting": set(), "challenge": False, "sent": set(), "svcs": set()}
        elif t in ("disconnect", "registered"):
            self._depart(ev["id"])
        elif t == "password" and ev["id"] in self.open:
            self.open[ev["id"]]["challenge"] = False
        elif t in ("reply", "unlinked"):
            pt = parse_tag(ev["tag"])
            if pt and pt[0] in self.open and self.open[pt[0]]["tag"] == ev["tag"].lower():
                st = self.open[pt[0]]
                txt = ev.get("text", "") if t == "reply" else None
                if ev["svc"] in st["awaiting"] and (t == "unlinked" or re.match(r"^(OK( |$)|NO |AGAIN |MORE )", txt)):
                    st["awaiting"].discard(ev["svc"])
                    if t == "reply" and txt.startswith("MORE "):
                        st["challenge"] = True
        for ln in out:
            c = classify(ln)
            if not c:
                continue
            if c["kind"] == "xquery":
                pt = parse_tag(c["tag"])
                if pt and pt[0] in self.open:
                    st = self.open[pt[0]]
                    st["tag"] = c["tag"]
                    st["queries"][c["svc"]] = st["queries"].get(c["svc"], 0) + 1
                    st["awaiting"].add(c["svc"])
                    st["svcs"].add(c["svc"])
            elif c["kind"] == "client" and c["cmd"] in "DRk":
                self._depart(c["id"])

    def _depart(self, cid):
        st = self.open.pop(cid, None)
        if st and st["tag"]:
            self.old_tags.append((cid, st["tag"], sorted(st["svcs"])))

    def finish(self):
        if self.res is None:
            self.res = self.d.finish()
            self.trace.result = self.res.describe()
        return self.res

    def kill(self):
        self.d.kill()
