"""Driver for the real iauthd-c binary (DESIGN.md section 3.3).

The daemon is started with pipes on stdin/stdout, stderr goes to a file in the
scratch directory.  Output is attributed to input lines with the guarded
"-1 # sync <k>" pseudo-command: everything between two markers was caused by
the line in between.  No timing is involved in attribution; wall-clock limits
exist only as watchdogs (their firing is "inconclusive", never a verdict).
"""
import os
import re
import select
import shutil
import signal
import subprocess
import tempfile
import time

SCRATCH_ROOT = os.environ.get("VERIF_SCRATCH") or ("/dev/shm" if os.path.isdir("/dev/shm") else None)

# fresh heap blocks are filled with 0xbe (ASan keeps freed blocks in quarantine, so without this a field that is read before it is set
# would always read as zero here - and as the previous owner's value on a plain build)
ASAN_OPTS = "abort_on_error=0:exitcode=99:allocator_may_return_null=1:detect_leaks=%d:malloc_context_size=12:max_malloc_fill_size=1048576:malloc_fill_byte=190"
UBSAN_OPTS = "print_stacktrace=1:exitcode=98"


class Hang(Exception):
    pass


class Lost(Exception):
    """Lines the daemon must have written never arrived."""


class Died(Exception):
    pass


def default_conf(moddir, modules=("iauth_xquery",), timeout=None, services=(), rules_text="",
                 logs_text="", extra=""):
    """Render a configuration file in one conservative layout."""
    out = ["core {", '    library_path ( "%s" );' % moddir,
           "    modules ( %s );" % ", ".join(modules), "};"]
    if timeout is not None:
        out += ["iauth {", "    timeout %s;" % timeout, "};"]
    if services is not None:          # None: the file has no iauth_xquery section at all
        out += ["iauth_xquery {"]
        for name, proto in services:
            out.append('    "%s" "%s";' % (name, proto))
        out += ["};"]
    if rules_text:
        out += ["iauth_class {", rules_text, "};"]
    if logs_text:
        out += ["logs {", logs_text, "};"]
    if extra:
        out.append(extra)
    return "\n".join(out) + "\n"


def parse_sanitizer(stderr_text):
    """Return list of sanitizer events: dicts(kind, func, text)."""
    events = []
    lines = stderr_text.splitlines()
    i = 0
    while i < len(lines):
        ln = lines[i]
        m = re.search(r"ERROR: (AddressSanitizer|LeakSanitizer): ([^\n]*)", ln)
        if m:
            tool = m.group(1)
            kind = m.group(2).split(" on ")[0].split(":")[0].strip()
            if tool == "LeakSanitizer":
                kind = "leak"
            kind = re.sub(r"\s+\(.*$", "", kind)
            kind = re.sub(r"0x[0-9a-f]+", "", kind).strip()
            func = None
            allocfunc = None
            j = i + 1
            block = [ln]
            while j < len(lines) and not re.search(r"ERROR: (AddressSanitizer|LeakSanitizer)", lines[j]):
                block.append(lines[j])
                fm = re.match(r"\s*#\d+ 0x[0-9a-f]+ in (\S+) (\S+)", lines[j])
                if fm and func is None and _in_repo(fm.group(2)):
                    func = fm.group(1)
                j += 1
            events.append({"kind": ("leak" if tool == "LeakSanitizer" else "asan:" + kind),
                           "func": func or "?", "text": "\n".join(block[:60])})
            i = j
            continue
        m = re.search(r"^(\S+?):(\d+):(\d+): runtime error: (.*)$", ln)
        if m:
            what = m.group(4)
            what = re.sub(r"-?\d+", "N", what)
            what = re.sub(r"0x[0-9a-f]+", "P", what)
            func = None
            j = i + 1
            block = [ln]
            while j < len(lines) and re.match(r"\s*#\d+ ", lines[j]):
                block.append(lines[j])
                fm = re.match(r"\s*#\d+ 0x[0-9a-f]+ in (\S+) (\S+)", lines[j])
                if fm and func is None and _in_repo(fm.group(2)):
                    func = fm.group(1)
                j += 1
            if func is None:
                func = os.path.basename(m.group(1))
            events.append({"kind": "ubsan:" + what[:60], "func": func, "text": "\n".join(block[:40])})
            i = j
            continue
        m = re.match(r"^==(\d+)== ((?:Invalid|Conditional jump|Use of uninit|Syscall param|Source and dest|Mismatched|Argument|Process terminating|Jump to)[^\n]*)", ln)
        if m:
            # valgrind memcheck (run with -q: only errors are written)
            what = re.sub(r"\d+", "N", m.group(2))
            func = None
            j = i + 1
            block = [ln]
            while j < len(lines) and re.match(r"^==%s==\s+(at|by) " % m.group(1), lines[j]):
                block.append(lines[j])
                fm = re.match(r"^==\d+==\s+(?:at|by) 0x[0-9A-Fa-f]+: (\S+) \((\S+?):\d+\)", lines[j])
                if fm and func is None and re.match(r"^(iauth\w*|config|set|log|module|main|common|bitset|vector|accumulator)\.c$", fm.group(2)):
                    func = fm.group(1)
                j += 1
            if not what.startswith("Process terminating"):
                events.append({"kind": "memcheck:" + what[:60], "func": func or "?", "text": "\n".join(block[:30])})
            i = j
            continue
        i += 1
    return events


def _in_repo(path):
    return ("/repo/" in path or "/modules/iauth" in path or "/src/" in path or "/harness/" in path)


class Result(object):
    """What a finished daemon run looked like."""

    def __init__(self):
        self.exit = None       # exit status (>=0) or None
        self.signal = None     # terminating signal or None
        self.hang = False
        self.stderr = ""
        self.sanitizer = []
        self.tail = []         # output lines after the last sync

    def clean(self):
        return self.exit == 0 and not self.hang and not self.sanitizer

    def crash_events(self):
        """Events that mean crash / memory error / hang (C08 vocabulary)."""
        ev = []
        for s in self.sanitizer:
            ev.append((s["kind"], s["func"]))
        if self.hang:
            ev.append(("hang", "?"))
        elif self.signal is not None and not self.sanitizer:
            ev.append(("signal:%d" % self.signal, _abort_site(self.stderr)))
        elif self.exit not in (0, None) and not self.sanitizer:
            ev.append(("exit:%d" % self.exit, _abort_site(self.stderr)))
        return ev

    def describe(self):
        return {"exit": self.exit, "signal": self.signal, "hang": self.hang,
                "sanitizer": [(s["kind"], s["func"]) for s in self.sanitizer],
                "stderr_tail": self.stderr[-1500:]}


def _abort_site(stderr):
    m = re.search(r"(\w+\.c):\d+: (\w+): Assertion", stderr)
    if m:
        return "assert:" + m.group(2)
    if "buffer overflow detected" in stderr:
        return "fortify"
    return "?"


class Daemon(object):
    def __init__(self, build, conf_text, leaks=True, env=None, args=("-n",), hooks=True,
                 watchdog=30.0, keep=False, wrapper=(), transport=None, sndbuf=4608, link=None):
        self.build = build
        self.dir = tempfile.mkdtemp(prefix="iauthd-verif-", dir=SCRATCH_ROOT)
        self.conf_path = os.path.join(self.dir, "iauthd.conf")
        # link: the name given with -f goes through a symbolic link - "file": iauthd.conf -> release-N.conf, "dir":
        # current/iauthd.conf with current -> vN - and a new configuration is installed by re-pointing the link (atomic deploy)
        self.link = link
        real = self.conf_path
        if link == "file":
            real = os.path.join(self.dir, "release-0.conf")
            os.symlink("release-0.conf", self.conf_path)
        elif link == "dir":
            os.mkdir(os.path.join(self.dir, "v0"))
            os.symlink("v0", os.path.join(self.dir, "current"))
            real = os.path.join(self.dir, "v0", "iauthd.conf")
            self.conf_path = os.path.join(self.dir, "current", "iauthd.conf")
        with open(real, "w", encoding="latin-1") as f:
            f.write(conf_text)
        self.hooks = hooks
        self.watchdog = watchdog
        self.keep = keep
        e = dict(os.environ)
        e["ASAN_OPTIONS"] = ASAN_OPTS % (1 if leaks else 0)
        e["UBSAN_OPTIONS"] = UBSAN_OPTS
        e["LSAN_OPTIONS"] = "exitcode=97"
        if hooks:
            e["IAUTHD_VERIF_MARK"] = "1"
        else:
            e.pop("IAUTHD_VERIF_MARK", None)
        e.pop("IAUTHD_VERIF_CHUNK", None)
        if env:
            e.update(env)
        self.errpath = os.path.join(self.dir, "stderr.txt")
        self.errf = open(self.errpath, "wb")
        self.sock = None
        if transport == "socketpair":
            # the way an IRC server starts its helper: ONE end of a socket pair is both its standard input and its standard output
            # (one open file description: a flag such as O_NONBLOCK set through one descriptor holds for the other); the daemon's
            # send buffer is small, so that a reader who falls behind makes its writes wait
            import socket
            ours, theirs = socket.socketpair()
            theirs.setsockopt(socket.SOL_SOCKET, socket.SO_SNDBUF, sndbuf)
            self.p = subprocess.Popen(list(wrapper) + [build["exe"]] + list(args) + ["-f", self.conf_path],
                                      stdin=theirs.fileno(), stdout=theirs.fileno(), stderr=self.errf,
                                      cwd=self.dir, env=e, bufsize=0)
            theirs.close()
            self.sock = ours
            self.ofd = self.ifd = ours.fileno()
        else:
            self.p = subprocess.Popen(list(wrapper) + [build["exe"]] + list(args) + ["-f", self.conf_path],
                                      stdin=subprocess.PIPE, stdout=subprocess.PIPE, stderr=self.errf,
                                      cwd=self.dir, env=e, bufsize=0)
            self.ofd = self.p.stdout.fileno()
            self.ifd = self.p.stdin.fileno()
        self.buf = b""
        self.nsync = 0
        self.banner = []
        self.result = None
        self.pending_lines = []

    # -- low level -------------------------------------------------------
    def _readline(self, deadline):
        while True:
            k = self.buf.find(b"\n")
            if k >= 0:
                ln = self.buf[:k]
                self.buf = self.buf[k + 1:]
                return ln.decode("latin-1")
            t = deadline - time.time()
            if t <= 0:
                raise Hang()
            r, _, _ = select.select([self.ofd], [], [], min(t, 1.0))
            if not r:
                if self.p.poll() is not None:
                    # process gone; drain
                    chunk = os.read(self.ofd, 65536)
                    if not chunk:
                        raise Died()
                    self.buf += chunk
                continue
            try:
                chunk = os.read(self.ofd, 65536)
            except ConnectionResetError:
                chunk = b""
            if not chunk:
                raise Died()
            self.buf += chunk

    def _write(self, data):
        try:
            if self.sock is not None:
                self.sock.sendall(data)
            else:
                self.p.stdin.write(data)
        except (BrokenPipeError, OSError):
            raise Died()

    def _collect_until(self, marker):
        out = []
        deadline = time.time() + self.watchdog
        try:
            while True:
                ln = self._readline(deadline)
                if ln == marker:
                    return out
                if ln.endswith(marker) and marker.startswith("#verif sync"):
                    # the daemon wrote something without a terminating newline; the marker got glued to it
                    out.append("#unterminated " + ln[:-len(marker)])
                    return out
                out.append(ln)
        except (Died, Hang):
            self.pending_lines = out
            raise

    # -- public ----------------------------------------------------------
    def start(self):
        """Wait for start-up to finish; returns the banner lines."""
        self.banner = self.step(None)
        return self.banner

    def step(self, line):
        """Send one input line (bytes or str, without newline); return output lines it caused."""
        self.nsync += 1
        data = b""
        if line is not None:
            if isinstance(line, str):
                line = line.encode("latin-1")
            data = line + b"\n"
        data += b"-1 # sync %d\n" % self.nsync
        self._write(data)
        return self._collect_until("#verif sync %d" % self.nsync)

    def steps(self, lines, lazy=False):
        """Pipeline many lines (one logical write); returns list of per-line outputs.  lazy: a reader who falls behind - output
        is read only while no more input can be written (the daemon's writes then have to wait for the reader)."""
        base = self.nsync
        data = []
        for ln in lines:
            self.nsync += 1
            if isinstance(ln, str):
                ln = ln.encode("latin-1")
            data.append(ln + b"\n-1 # sync %d\n" % self.nsync)
        blob = b"".join(data)
        fd_in = self.ifd
        os.set_blocking(fd_in, False)
        last = b"#verif sync %d\n" % self.nsync
        deadline = time.time() + self.watchdog + 0.001 * len(lines)
        pos = 0
        chunks = [self.buf]
        seen_last = self.buf.endswith(last)
        try:
            while pos < len(blob) or not seen_last:
                if time.time() > deadline:
                    raise Hang()
                wl = [fd_in] if pos < len(blob) else []
                if lazy and wl:
                    r, w, _ = select.select([], wl, [], 0)
                    if not w:
                        r, w, _ = select.select([self.ofd], wl, [], 1.0)
                else:
                    r, w, _ = select.select([self.ofd], wl, [], 1.0)
                if r:
                    c = os.read(self.ofd, 1 << 18)
                    if not c:
                        raise Died()
                    chunks.append(c)
                    tailb = (chunks[-2][-64:] if len(chunks) > 1 else b"") + c
                    if tailb.endswith(last):
                        seen_last = True
                elif not w and self.p.poll() is not None:
                    raise Died()
                if w:
                    try:
                        pos += os.write(fd_in, blob[pos:pos + 65536])
                    except BlockingIOError:
                        pass
                    except (BrokenPipeError, OSError):
                        raise Died()
        finally:
            os.set_blocking(fd_in, True)
            self.buf = b"".join(chunks)
        outs = []
        cur = []
        k = base + 1
        text = self.buf.decode("latin-1")
        self.buf = b""
        for ln in text.split("\n")[:-1]:
            if ln == "#verif sync %d" % k:
                outs.append(cur)
                cur = []
                k += 1
            elif ln.endswith("#verif sync %d" % k):
                cur.append("#unterminated " + ln[:-len("#verif sync %d" % k)])
                outs.append(cur)
                cur = []
                k += 1
            else:
                cur.append(ln)
        if len(outs) != len(lines):
            # the last acknowledgement arrived but earlier ones are missing: output was lost on the way
            raise Lost("%d of %d acknowledgements missing" % (len(lines) - len(outs), len(lines)))
        return outs

    def raw(self, data):
        """Write raw bytes without sync (C08/C09 style runs)."""
        try:
            self._write(data)
        except (BrokenPipeError, OSError):
            raise Died()

    def reload(self, new_text, wait=True, inplace=None, fail_first=False):
        """Replace the configuration file and send SIGUSR1.  Every second reload of a daemon overwrites the file in place
        (same inode, possibly the same size and modification second), the others rename a new file over it."""
        self.nreload = getattr(self, "nreload", 0) + 1
        import zlib
        # how the new file gets there varies with the reload's number and with what the file says (deterministic for a given history)
        mode = (self.nreload + zlib.crc32("\n".join(l for l in new_text.split("\n") if "library_path" not in l).encode("latin-1"))) % 4
        old_mtime = False
        if inplace is None:
            inplace = mode in (0, 2)
            old_mtime = mode == 3
        if self.link:
            n = self.nreload
            if self.link == "file":
                with open(os.path.join(self.dir, "release-%d.conf" % n), "w", encoding="latin-1") as f:
                    f.write(new_text)
                target, name = "release-%d.conf" % n, os.path.join(self.dir, "iauthd.conf")
            else:
                os.mkdir(os.path.join(self.dir, "v%d" % n))
                with open(os.path.join(self.dir, "v%d" % n, "iauthd.conf"), "w", encoding="latin-1") as f:
                    f.write(new_text)
                target, name = "v%d" % n, os.path.join(self.dir, "current")
            os.symlink(target, name + ".tmp")
            os.replace(name + ".tmp", name)
        elif inplace:
            with open(self.conf_path, "w", encoding="latin-1") as f:
                f.write(new_text)
        else:
            tmp = self.conf_path + ".new"
            with open(tmp, "w", encoding="latin-1") as f:
                f.write(new_text)
            if old_mtime:
                # a file prepared long ago and moved into place (mv, cp -p, rsync -t): older than the one it replaces
                os.utime(tmp, (1577836800 + self.nreload, 1577836800 + self.nreload))
            os.replace(tmp, self.conf_path)
        pre = []
        if fail_first and wait and self.hooks:
            # the environment fails once: with the new file in place, the first SIGUSR1 finds the process out of file descriptors
            # (fopen: EMFILE - the load fails for a reason that has nothing to do with the file); then the limit is back and a second
            # SIGUSR1 is sent: that one must bring the new file into force
            import resource
            fds = set(int(x) for x in os.listdir("/proc/%d/fd" % self.p.pid))
            free = next(k for k in range(4096) if k not in fds)
            soft, hard = resource.prlimit(self.p.pid, resource.RLIMIT_NOFILE)
            resource.prlimit(self.p.pid, resource.RLIMIT_NOFILE, (free, hard))
            try:
                self.p.send_signal(signal.SIGUSR1)
                pre = self._collect_until("#verif reload")
            finally:
                resource.prlimit(self.p.pid, resource.RLIMIT_NOFILE, (soft, hard))
            self.failed_reloads = getattr(self, "failed_reloads", 0) + 1
        self.p.send_signal(signal.SIGUSR1)
        if wait and self.hooks:
            return pre + self._collect_until("#verif reload")
        return []

    def finish(self, timeout=None):
        """Close stdin, wait for exit; returns Result."""
        res = Result()
        try:
            if self.sock is not None:
                import socket
                self.sock.shutdown(socket.SHUT_WR)
            else:
                self.p.stdin.close()
        except Exception:
            pass
        deadline = time.time() + (timeout or self.watchdog)
        tail = list(self.pending_lines)
        try:
            while True:
                tail.append(self._readline(deadline))
        except Died:
            pass
        except Hang:
            res.hang = True
        if self.buf:
            tail.append(self.buf.decode("latin-1"))
            self.buf = b""
        try:
            rc = self.p.wait(timeout=max(0.1, deadline - time.time()) if not res.hang else 0.1)
        except subprocess.TimeoutExpired:
            res.hang = True
            self.p.kill()
            rc = self.p.wait()
        if rc < 0:
            res.signal = -rc
        else:
            res.exit = rc
        if res.hang:
            res.signal = None
            res.exit = None
        self.errf.close()
        if self.sock is not None:
            self.sock.close()
        with open(self.errpath, "rb") as f:
            res.stderr = f.read().decode("latin-1")
        res.sanitizer = parse_sanitizer(res.stderr)
        res.tail = tail
        self.result = res
        if not self.keep:
            shutil.rmtree(self.dir, ignore_errors=True)
        return res

    def kill(self):
        try:
            self.p.kill()
            self.p.wait()
        except Exception:
            pass
        try:
            self.errf.close()
            if self.sock is not None:
                self.sock.close()
        except Exception:
            pass
        if not self.keep:
            shutil.rmtree(self.dir, ignore_errors=True)


def wait_quiescent(d, timeout=30.0):
    """True once the daemon has drained its input pipe and sleeps in epoll_wait (it is single-threaded: whatever it was going to do
    about the input written so far has then been done); output that arrives meanwhile is collected into d.buf.  False when that
    state is not reached within the timeout (the caller treats that as inconclusive, never as a verdict)."""
    import array
    import fcntl
    import termios
    t_end = time.time() + timeout
    hits = 0
    rhits = 0
    d.blocked_in_read = False
    while time.time() < t_end:
        r, _, _ = select.select([d.ofd], [], [], 0.01)
        if r:
            c = os.read(d.ofd, 1 << 16)
            if not c:
                return False
            d.buf += c
            hits = 0
            continue
        try:
            n = array.array("i", [0])
            # bytes written that the daemon has not read yet (pipe: FIONREAD of the pipe; socket pair: our unread output queue)
            fcntl.ioctl(d.ifd, termios.TIOCOUTQ if d.sock is not None else termios.FIONREAD, n)
            st = open("/proc/%d/stat" % d.p.pid).read().rsplit(")", 1)[1].split()[0]
        except (OSError, IndexError, ValueError):
            return False
        try:
            sc = open("/proc/%d/syscall" % d.p.pid).read().split()
            need = 3
            in_wait = bool(sc) and sc[0] in ("232", "281", "441")
        except OSError:
            # where the kernel does not show the system call: asleep with the pipe drained, for thirty samples in a row
            need = 30
            in_wait = True
        if n[0] == 0 and st == "S" and in_wait:
            hits += 1
            if hits >= need:
                return True
        else:
            hits = 0
        # asleep INSIDE read(0, ...) with nothing left to read: the daemon will not do anything more until new input arrives (a daemon
        # that reads only when told its input is readable is never seen there).  200 samples in a row (2 s) make it a state, not a moment.
        try:
            if n[0] == 0 and st == "S" and sc and sc[0] in ("0", "19") and int(sc[1], 16) == 0:   # read / readv on descriptor 0
                rhits += 1
                if rhits >= 200:
                    d.blocked_in_read = True
                    return False
            else:
                rhits = 0
        except (ValueError, IndexError, NameError):
            rhits = 0
    return False


def run_batch(build, conf_text, data, leaks=True, env=None, timeout=30.0, hooks=False, args=("-n",), pause_at=None, pause_s=0.0, on_pause=None, ready=None, wrapper=(), transport=None):
    """Feed raw bytes, close stdin, return (stdout lines, Result).  No sync lines are added.
    pause_at / pause_s: stop writing at that byte offset for that many seconds (stdin stays open) so that real timers can run.
    transport="socketpair": input and output over ONE socket, read only while nothing more can be written (a reader who falls behind)."""
    d = Daemon(build, conf_text, leaks=leaks, env=env, hooks=hooks, watchdog=timeout, args=args, wrapper=wrapper, transport=transport)
    try:
        # writer must not block forever if the daemon dies
        pos = 0
        out_chunks = []
        fd_in = d.ifd
        os.set_blocking(fd_in, False)
        deadline = time.time() + timeout
        died = False
        paused = pause_at is None
        if not paused:
            deadline += pause_s
        while pos < len(data):
            if time.time() > deadline:
                break
            if not paused and pos >= pause_at:
                paused = True
                if on_pause:
                    # the daemon installs its signal handlers after the modules are up: wait until it has answered something
                    t_rdy = time.time() + 10.0
                    while ready and not ready(b"".join(out_chunks)) and time.time() < t_rdy and not died:
                        r, _, _ = select.select([d.ofd], [], [], 0.2)
                        if r:
                            c = os.read(d.ofd, 65536)
                            if not c:
                                died = True
                            out_chunks.append(c)
                    if died:
                        break
                    on_pause(d)
                t_end = time.time() + pause_s
                while time.time() < t_end and not died:
                    r, _, _ = select.select([d.ofd], [], [], max(0.0, min(0.2, t_end - time.time())))
                    if r:
                        c = os.read(d.ofd, 65536)
                        if not c:
                            died = True
                            break
                        out_chunks.append(c)
                if died:
                    break
                continue
            if transport:
                r, w, _ = select.select([], [fd_in], [], 0)
                if not w:
                    r, w, _ = select.select([d.ofd], [fd_in], [], 1.0)
            else:
                r, w, _ = select.select([d.ofd], [fd_in], [], 1.0)
            if r:
                try:
                    c = os.read(d.ofd, 65536)
                except ConnectionResetError:
                    c = b""
                if not c:
                    died = True
                    break
                out_chunks.append(c)
            if w:
                try:
                    lim = pos + 65536 if paused else min(pos + 65536, pause_at)
                    n = os.write(fd_in, data[pos:lim])
                    pos += n
                except BlockingIOError:
                    pass
                except (BrokenPipeError, OSError):
                    died = True
                    break
        os.set_blocking(fd_in, True)
        d.buf = b"".join(out_chunks) + d.buf
        res = d.finish(timeout=max(1.0, deadline - time.time()))
        return res.tail, res
    except Exception:
        d.kill()
        raise
