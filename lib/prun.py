"""Running histories against the real daemon, monitoring them, shrinking witnesses."""
import os
import random

import build as buildmod
import gen
import monitor
import proto
import vcommon
from vcommon import Violation


def build_daemon(tag):
    out = buildmod.fresh_dir(tag)
    return buildmod.build_daemon(out, "asan")


def announce_ordinals(events):
    """serial the daemon assigns to each announce event (1-based, in order)."""
    n = 0
    out = {}
    for idx, ev in enumerate(events):
        if ev["t"] == "announce":
            n += 1
            out[idx] = n
    return out


def replay_events(build, config, events, orig_serials=None, leaks=True, env=None):
    """Re-run a (possibly shrunk) event list.  orig_serials: index->serial of the announces in
    `events` as they were in the original history; tags are renumbered accordingly."""
    s = proto.Session(build, config, leaks=leaks, env=env)
    try:
        mapping = {}
        n = 0
        for idx, ev in enumerate(events):
            if ev["t"] == "announce":
                n += 1
                if orig_serials is not None and idx in orig_serials:
                    mapping[orig_serials[idx]] = n
        for ev in events:
            if ev["t"] in ("reply", "unlinked") and orig_serials is not None:
                pt = proto.parse_tag(ev["tag"])
                if pt and pt[1] in mapping:
                    ev = dict(ev)
                    ev["tag"] = "%x_%x" % (pt[0] & 0xffffffff, mapping[pt[1]])
            s.do(ev)
            if s.dead:
                break
        s.finish()
    except Exception:
        s.kill()
        raise
    return s.trace


def shrink(build, config, events, still_fails, budget=250):
    """ddmin over events; still_fails(trace) -> bool."""
    serial_of = announce_ordinals(events)
    cur = list(range(len(events)))

    def test(idxs):
        evs = [events[i] for i in idxs]
        ser = {k: serial_of[i] for k, i in enumerate(idxs) if i in serial_of}
        try:
            tr = replay_events(build, config, evs, ser)
        except Exception:
            return False
        return still_fails(tr)

    n = 2
    runs = 0
    while len(cur) >= 2 and runs < budget:
        chunk = max(1, len(cur) // n)
        reduced = False
        for start in range(0, len(cur), chunk):
            cand = cur[:start] + cur[start + chunk:]
            runs += 1
            if cand and test(cand):
                cur = cand
                n = max(n - 1, 2)
                reduced = True
                break
            if runs >= budget:
                break
        if not reduced:
            if chunk == 1:
                break
            n = min(len(cur), n * 2)
    evs = [events[i] for i in cur]
    ser = {k: serial_of[i] for k, i in enumerate(cur) if i in serial_of}
    return evs, ser


def render_trace(tr, limit=60):
    lines = []
    for k, (ev, out) in enumerate(tr.steps[-limit:]):
        lines.append(">> " + proto.render(ev))
        for o in out:
            lines.append("   << " + o)
    return "\n".join(lines)


def crash_violations(prop, tr, res, sig_prefix=""):
    """Daemon crash / sanitizer / unclean exit as violations of `prop` (C03, C08, C10 semantics)."""
    out = []
    if res is None:
        return out
    for kind, func in res.crash_events():
        out.append((prop, "crash", "%s|%s" % (kind, func), "daemon failed: %s in %s (exit=%s signal=%s)\n%s" % (
            kind, func, res.exit, res.signal, res.stderr[-1500:])))
    return out


def hist_worker(a):
    """One random history.  a = dict(build, config, seed, n, ids, opts, props, shrink)."""
    rng = random.Random(a["seed"])
    cfg = proto.Config.from_json(a["config"])
    s = proto.Session(a["build"], cfg, leaks=a.get("leaks", True), env=a.get("env"))
    try:
        g = gen.RandomHistory(rng, s, a["ids"], **a.get("opts", {}))
        g.run(a["n"])
        if a.get("final_stats", True) and not s.dead:
            s.do({"t": "stats"})
        s.finish()
    except Exception:
        s.kill()
        raise
    return post(s, a["build"], cfg, a["props"], a["seed"], a.get("shrink", True), a.get("want_sample"))


def post(s, build, cfg, props, seed, do_shrink=True, want_sample=False):
    """Monitor a finished session; shrink witnesses; package the result for fold()."""
    tr = s.trace
    res = s.res
    viol, stats = monitor.analyze(tr)
    props = set(props)
    mine = [v for v in viol if v.prop in props]
    out = []
    crashed = not res.clean()
    stats["daemon_unclean"] = 1 if crashed else 0
    seen = set()
    for v in mine:
        if (v.prop, v.sig) in seen:
            continue
        seen.add((v.prop, v.sig))
        events = [e for e, _ in tr.steps[:v.step + 1]]
        wit_tr = tr
        if do_shrink and len(seen) <= 3:
            def still(t2, v=v):
                v2, _ = monitor.analyze(t2)
                return any(x.prop == v.prop and x.sig == v.sig for x in v2)
            try:
                evs, ser = shrink(build, cfg, events, still)
                wit_tr = replay_events(build, cfg, evs, ser)
                v3, _ = monitor.analyze(wit_tr)
                vv = [x for x in v3 if x.prop == v.prop and x.sig == v.sig]
                if vv:
                    v = vv[0]
                    events = [e for e, _ in wit_tr.steps]
                else:
                    wit_tr = tr
            except Exception:
                wit_tr = tr
        out.append((v.prop, v.rule, v.sig, "%s\nconfig: %s\nhistory (shrunk):\n%s" % (v.text, cfg.to_json(), render_trace(wit_tr)),
                    {"config": cfg.to_json(), "events": events, "seed": seed}))
    crash = []
    if crashed:
        for kind, func in res.crash_events():
            crash.append((kind, func, res.stderr[-2500:], render_trace(tr, 12)))
    nontrivial = stats["verdicts"] > 0
    sample = render_trace(tr, 40) if want_sample else None
    return {"viol": out, "stats": stats, "crash": crash, "nontrivial": nontrivial, "sample": sample, "nsteps": len(tr.steps),
            "hash": vcommon.h([cfg.to_json(), [proto.render(e) for e, _ in tr.steps]]), "config": cfg.to_json(),
            "events": [e for e, _ in tr.steps] if crash else None}


def orders_worker(a):
    """A batch of enumerated single-client histories (lib/orders.py).  a = dict(build, cases, props, timeout)."""
    import orders
    results = []
    for k, case in enumerate(a["cases"]):
        table, order, policy, tpos, hpos, pw, seed, extra = case
        cfg = proto.Config(orders.TABLES[table] if isinstance(table, int) else table, timeout=a.get("timeout", 3600),
                           rules=extra.get("rules"), use_class=bool(extra.get("rules")))
        rng = random.Random(seed)
        s = proto.Session(a["build"], cfg, leaks=a.get("leaks", True))
        try:
            orders.run_order(s, rng, order, policy, tpos, hpos, pw, second_pw=extra.get("second_pw"), ip=extra.get("ip", "1.2.3.4"),
                             fields=gen.Fields(rng, boundary=extra.get("boundary", 0.3)))
            s.finish()
        except Exception:
            s.kill()
            raise
        results.append(post(s, a["build"], cfg, a["props"], seed, a.get("shrink", True), want_sample=(k == 0 and a.get("want_sample"))))
    return results


def fold(chk, prop, results, crash_is_violation=False):
    """Fold worker results into the Check object."""
    for r in results:
        chk.add_case(r["hash"], r["nontrivial"])
        chk.merge_counts(r["stats"])
        chk.count("steps", r["nsteps"])
        for (p, rule, sig, text, wit) in r["viol"]:
            chk.violation(Violation(p, rule, sig, text, wit))
        for (kind, func, err, tail) in r["crash"]:
            if crash_is_violation:
                chk.violation(Violation(prop, "crash", "crash:%s|%s" % (kind, func),
                                        "daemon crashed / exited uncleanly during a well-formed history: %s in %s\n%s\nlast steps:\n%s" % (kind, func, err, tail),
                                        {"config": r["config"], "events": r["events"]}))
            elif kind == "leak":
                # a leak report comes at exit, after the whole history was served: the trace is complete; whether everything is
                # released is C10's (and C08's) question, not this property's
                chk.count("leak_reports_not_judged_here")
            else:
                where = ""
                try:
                    # keep the history of an inconclusive run, so it can be looked at (and fed to C08's replay)
                    import json as _json
                    d = os.path.join(vcommon.OUT, "replays", "inconclusive")
                    os.makedirs(d, exist_ok=True)
                    where = os.path.join(d, "%s-%s.json" % (prop, vcommon.h([r["config"], r["events"]])[:12]))
                    with open(where, "w") as f:
                        _json.dump({"property": prop, "kind": kind, "func": func, "err": err, "config": r["config"], "events": r["events"]}, f)
                    where = " [history kept in %s]" % where
                except Exception:
                    where = ""
                chk.inconc("daemon crashed during a history (%s in %s); trace incomplete - see C08, whose workload covers crashes%s" % (kind, func, where))
        if r.get("sample"):
            chk.sample({"history_tail": r["sample"]}, limit=2)


def replay_witness(chk, rep, props):
    b = build_daemon(chk.prop.lower() + "-replay")
    w = rep["witness"]
    cfg = proto.Config.from_json(w["config"])
    tr = replay_events(b, cfg, w["events"])
    viol, stats = monitor.analyze(tr)
    print(render_trace(tr, 200))
    mine = [v for v in viol if v.prop in props]
    for v in mine:
        print("VIOLATION-REPLAYED", v)
    if tr.result and (tr.result["exit"] != 0 or tr.result["sanitizer"]):
        print("daemon result:", tr.result)
        return 1
    return 1 if mine else 0
