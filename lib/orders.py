"""Enumerated single-client histories: every arrival order of the data items x reply policy x timeout / hurry-up position."""
import itertools
import random

import gen
import proto

ITEMS = ["host", "ident", "nick", "userinfo", "password"]
TABLES = [
    [("login.svc", "login")],
    [("drone.svc", "dronecheck")],
    [("ipr.svc", "login-ipr")],
    [("combo.svc", "combined")],
    [("login.svc", "login"), ("drone.svc", "dronecheck")],
    [("a.login", "login"), ("b.login", "login-ipr"), ("combo.svc", "combined")],
    [],
]
POLICIES = ["imm-ok", "end-ok", "end-rev", "never", "no-first", "mixed", "imm-acct", "imm-okspace"]
PWS = ["+x alice secret", "+! alice secret", "- bob pw with spaces", "+x! carol pw", None]


def all_orders(with_password=True):
    items = ITEMS if with_password else ITEMS[:4]
    return list(itertools.permutations(items))


def run_order(session, rng, order, policy, timeout_pos, hurry_pos, pw, cid=5, fields=None, ip="1.2.3.4", second_pw=None, finish=True):
    """Drives one client through `order`; replies according to `policy`.  Returns nothing (session records the trace)."""
    s = session
    f = fields or gen.Fields(rng, boundary=0.3)
    s.do({"t": "announce", "id": cid, "ip": ip, "port": 4000})
    first_no_done = [False]

    def reply_all(kind_fn, reverse=False):
        st = s.open.get(cid)
        if not st:
            return
        for sv in sorted(st["awaiting"], reverse=reverse):
            st2 = s.open.get(cid)
            if not st2 or sv not in st2["awaiting"]:
                continue
            s.do({"t": "reply", "svc": sv, "tag": st2["tag"], "text": kind_fn(sv)})

    def kind_ok(sv):
        return "OK"

    def kind_acct(sv):
        return "OK alice:12345"

    def kind_mixed(sv):
        return gen.reply_text(rng, rng.choice(["OK", "OKacct", "AGAIN", "MORE", "junk", "OK", "NO", "OKspace"]))

    def kind_nofirst(sv):
        if not first_no_done[0]:
            first_no_done[0] = True
            return "NO go away"
        return "OK"

    def after_step(final=False):
        if policy == "imm-ok":
            reply_all(kind_ok)
        elif policy == "imm-acct":
            reply_all(kind_acct)
        elif policy == "imm-okspace":
            reply_all(lambda sv: rng.choice(["OK ", "OK  alice"]))
        elif policy == "mixed" and (final or rng.random() < 0.5):
            reply_all(kind_mixed)
        elif final and policy == "end-ok":
            reply_all(kind_acct if rng.random() < 0.5 else kind_ok)
        elif final and policy == "end-rev":
            reply_all(kind_ok, reverse=True)
        elif final and policy == "no-first":
            reply_all(kind_nofirst)

    pos = 0
    for item in order:
        if cid not in s.open:
            break
        if pos == timeout_pos:
            s.do({"t": "timeout", "id": cid})
        if pos == hurry_pos and cid in s.open:
            s.do({"t": "hurry", "id": cid})
            after_step()
        pos += 1
        if cid not in s.open:
            break
        if item == "password":
            if pw is None:
                continue
            s.do({"t": "password", "id": cid, "text": pw})
        elif item == "host":
            s.do({"t": "host", "id": cid, "name": f.host()} if rng.random() < 0.75 else {"t": "nohost", "id": cid})
        elif item == "ident":
            s.do({"t": "ident", "id": cid, "name": f.ident()})
        elif item == "nick":
            s.do({"t": "nick", "id": cid, "name": f.nick()})
        else:
            s.do({"t": "userinfo", "id": cid, "user": f.user(), "real": f.real()})
        after_step()
    if cid in s.open and pos == timeout_pos:
        s.do({"t": "timeout", "id": cid})
    if cid in s.open and pos == hurry_pos:
        s.do({"t": "hurry", "id": cid})
    if cid in s.open and second_pw:
        s.do({"t": "password", "id": cid, "text": second_pw})
    after_step(final=True)
    if cid in s.open and s.open[cid]["challenge"]:
        s.do({"t": "password", "id": cid, "text": f.token()})
        after_step(final=True)
    if finish and cid in s.open:
        # late events: the timeout after everything else, a late duplicate reply, then hurry-up
        if timeout_pos is None or timeout_pos > pos:
            s.do({"t": "timeout", "id": cid})
        st = s.open.get(cid)
        if st and st["awaiting"] and policy != "never":
            reply_all(kind_ok)
        if cid in s.open:
            s.do({"t": "hurry", "id": cid})
        st = s.open.get(cid)
        if st and st["awaiting"]:
            reply_all(kind_ok)
