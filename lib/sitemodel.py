"""The module interface that no shipped module uses, driven through the fixture module site_api (harness/siteapi.c) and judged
against an executable model of the core's request handling.

Configuration: modules (iauth, site_api) only - no service queries, no class rules, request timeout 3600 s (never fires in a run) -
so what the daemon writes is a function of the input lines alone and the model predicts it LINE FOR LINE.  The daemon runs in
lock-step (guarded sync command); a fixture command `<id> P :@cmd arg` is carried out from a zero-delay timer after the input of
that step has been handled, so its output is collected by a second, empty step.

Every difference between predicted and observed output is classified by what it is about, and each check takes its own class:
  C01  a verdict for a client that has none coming / a second verdict / a line naming a client that is gone
  C02  a client accepted although it is held or lacks required data
  C03  a client that has everything and no hold is not given its verdict in that step
  C05  challenge / kill / account / class texts not as given
  C09  a line that is not `<cmd> <id> <address> <port> ...` for the client it is about, with the address it has now
  C10  the request counters of `? stats` (and the callback counters of the fixture: every request announced is handed to the
       module once and taken away once)
"""
import random
import re

import daemon
import proto
import vcommon

ACCOUNTLEN, CLASSLEN = 64, 63
POLICIES = ["AU", "A", "U", "", "RTAUW", "AUW"]
# (an address in a C line cannot begin with ':' - the line protocol would read it as the trailing argument; the server writes 0::1)
IPS = ["10.1.2.3", "192.0.2.77", "0.0.0.1", "255.255.255.255", "2001:db8::7", "0::1", "0::ffff:1.2.3.4", "fe80::1:2:3:4", "2001:db8:0:1:2:3:4:5", "0::", "1::", "0::2:0:0:3", "0:0:1::",
       "64:ff9b::102:304"]
NEWIPS = IPS + ["172.16.0.9", "2001:db8::ffff", "::1.2.3.4", "a:b:c:d:e:f:1:2", "::1", "::ffff:0.0.0.0", "::", "::ffff:1.2.3.4"]


def conf_text(moddir, with_class=False):
    return ('core {\n    library_path ( "%s" );\n    modules ( iauth, site_api );\n};\niauth { timeout 3600 };\nlogs { "*.*" "file:all.log" };\n' % moddir)


class Req(object):
    def __init__(self, cid, serial, ip, port):
        self.id, self.serial, self.ip, self.port = cid, serial, proto.addr_value(ip), port
        self.flags = set()
        self.holds = self.soft = 0
        self.soft_done = False
        self.hostname_set = False
        self.cli_user = False
        self.empty_ident = False
        self.account = ""
        self.klass = ""
        self.timer = True      # the request timer (3600 s) is pending until the guarded hook fires it


class Model(object):
    def __init__(self, policies):
        self.pol = policies
        self.required = {"host"} | ({"userinfo"} if "A" in policies else set()) | ({"nick", "ident"} if "U" in policies else set())
        self.live = {}
        self.serial = 0
        self.allocs = self.frees = 0
        self.c = dict(new=0, disc=0, reg_ircd=0, reg_self=0, err=0, err_req=0, info=0, pre=0, field=0, uinfo=0, pw=0, cmd=0, stale=0)
        self.pending = []
        self.out = []          # expected lines of the current step: ("cli", cmd, id, ipvalue, port, rest) / ("glob", text) / ("I", id, port, newip)

    # -- emitting
    def cli(self, r, cmd, rest=""):
        self.out.append(("cli", cmd, r.id, r.ip, r.port, rest))

    def glob(self, text):
        self.out.append(("glob", text))

    def remove(self, r):
        del self.live[r.id]
        self.frees += 1

    def accept(self, r):
        self.c["pre"] += 1
        if r.account and r.klass:
            self.cli(r, "R", "%s %s" % (r.account, r.klass))
        elif r.account:
            self.cli(r, "R", r.account)
        elif r.klass:
            self.cli(r, "D", r.klass)
        else:
            self.cli(r, "D")
        self.c["reg_self"] += 1
        self.remove(r)

    def check(self, r):
        if r.holds == 0 and self.required <= r.flags:
            if r.soft == 0:
                self.accept(r)
            elif not r.soft_done:
                r.soft_done = True
                self.cli(r, "d")

    # -- input
    def line(self, ln):
        m = re.match(r"^(-?\d+) (\S)(?: (.*))?$", ln)
        cid, cmd, rest = int(m.group(1)), m.group(2), m.group(3) or ""
        if cmd == "C":
            ip, port = rest.split(" ")[0], int(rest.split(" ")[1])
            if cid in self.live:
                self.c["disc"] += 1
                self.remove(self.live[cid])
            self.serial += 1
            self.allocs += 1
            self.live[cid] = Req(cid, self.serial, ip, port)
            self.c["new"] += 1
            return
        if cid == -1:
            if cmd == "M" and len(rest.split(" ")) >= 2:
                self.c["info"] += 1
            elif cmd == "E" and len(rest.split(" ")) >= 2:
                self.c["err"] += 1
            elif cmd == "?" and rest == "stats":
                self.glob("s")
                self.glob("S iauth :%d-%d reqs alloc, %d in use; 0 data frees" % (self.allocs, self.frees, len(self.live)))
                c = self.c
                self.glob("S site_api :new %d disc %d reg %d+%d err %d/%d info %d pre %d field %d uinfo %d pw %d cmd %d+%d" % (
                    c["new"], c["disc"], c["reg_ircd"], c["reg_self"], c["err"], c["err_req"], c["info"], c["pre"], c["field"], c["uinfo"], c["pw"], c["cmd"], c["stale"]))
            elif cmd == "?" and rest == "config":
                self.glob("a")
                self.glob("A site_api :policies %s" % self.pol)
            return
        r = self.live.get(cid)
        if r is None:
            return
        if cmd == "N":
            if r.hostname_set:
                return
            r.hostname_set = True
            r.flags.add("host")
            self.c["field"] += 1
            self.check(r)
        elif cmd == "d":
            r.flags.add("host")
            self.c["field"] += 1
            self.check(r)
        elif cmd == "u":
            if rest:
                r.flags.add("ident")
            elif r.cli_user:
                r.flags.add("ident")
            else:
                r.empty_ident = True
            self.c["field"] += 1
            self.check(r)
        elif cmd == "n":
            r.flags.add("nick")
            self.c["field"] += 1
            self.check(r)
        elif cmd == "U":
            r.cli_user = True
            r.flags.add("userinfo")
            if r.empty_ident:
                r.flags.add("ident")
            self.c["uinfo"] += 1
            self.check(r)
        elif cmd == "H":
            r.flags |= self.required
            self.c["field"] += 1
            self.check(r)
        elif cmd == "P":
            text = rest[1:] if rest.startswith(":") else rest
            self.c["pw"] += 1
            if text.startswith("@"):
                sp = text.find(" ")
                self.pending.append((cid, r.serial, text[1:sp] if sp > 0 else text[1:], text[sp + 1:] if sp > 0 else ""))
            self.check(r)
        elif cmd == "D":
            self.c["disc"] += 1
            self.remove(r)
        elif cmd == "T":
            self.c["reg_ircd"] += 1
            self.remove(r)
        elif cmd == "E":
            if len(rest.split(" ")) >= 2:
                self.c["err"] += 1
                self.c["err_req"] += 1
        elif cmd == "#" and rest == "timeout":
            # the guarded hook fires the request's real timer handler once: the soft holds are gone
            if r.timer:
                r.timer = False
                r.soft = 0
                self.check(r)

    def run_pending(self):
        todo, self.pending = self.pending, []
        for cid, serial, cmd, arg in todo:
            r = self.live.get(cid)
            if r is None or r.serial != serial:
                self.c["stale"] += 1
                continue
            self.c["cmd"] += 1
            if cmd == "setip":
                v = proto.addr_value(arg)
                if v is not None:
                    self.out.append(("I", r.id, r.port, v))
                    r.ip = v
            elif cmd == "sethost":
                self.cli(r, "N", arg)
                r.hostname_set = r.hostname_set or arg != ""
                if "host" not in r.flags:
                    r.flags.add("host")
                    self.check(r)
            elif cmd in ("force", "trust"):
                self.cli(r, "o" if cmd == "force" else "U", arg)
                if "ident" not in r.flags:
                    r.flags.add("ident")
                    self.check(r)
            elif cmd == "weak":
                self.cli(r, "u", arg)
            elif cmd == "mode":
                if arg[:1] in ("+", "-"):
                    self.cli(r, "M", ":" + arg)
            elif cmd == "challenge":
                self.cli(r, "C", ":" + arg)
            elif cmd in ("kill", "qkill"):
                self.cli(r, "k", ":" + arg)
                self.c["reg_self"] += 1
                self.remove(r)
            elif cmd == "accept":
                self.accept(r)
            elif cmd == "soft":
                r.soft_done = True
                self.cli(r, "d")
            elif cmd == "opers":
                self.glob("> :" + arg)
            elif cmd == "debug":
                try:
                    n = int(re.match(r"^\s*[-+]?\d+", arg).group(0))
                except AttributeError:
                    n = 0
                self.glob("G %d" % n)
            elif cmd == "hold":
                r.holds += 1
            elif cmd == "release":
                r.holds = max(0, r.holds - 1)
                self.check(r)
            elif cmd == "softhold":
                r.soft += 1
            elif cmd == "softrelease":
                r.soft = max(0, r.soft - 1)
                self.check(r)
            elif cmd == "account":
                r.account = arg[:ACCOUNTLEN]
            elif cmd == "class":
                r.klass = arg[:CLASSLEN]
            elif cmd == "routing":
                self.glob("> :routing rc=0 tag=%x_%x back=same" % (r.id, r.serial))


def parse_actual(ln):
    """Observed line -> the same shape the model emits (or ("raw", line) when it is not a client line)."""
    m = re.match(r"^([A-Za-z]) (-?\d+) (\S+) (\d+)(?: (.*))?$", ln)
    if m and m.group(1) != "S" and m.group(1) != "A" and m.group(1) != "G":
        v = proto.addr_value(m.group(3))
        if v is not None:
            return ("cli", m.group(1), int(m.group(2)), v, int(m.group(4)), m.group(5) or "")
    return ("glob", ln)


WORDS = ["alpha", "beta", "x", "Joe", "a-b_c", "~ident", "99", "ÿé", "[]\\`^{}", "longer.name.example.org", "q" * 63, "r" * 70, "s" * 10, "t" * 11]
TEXTS = ["go away", "say: please", ":leading colon", "two  spaces", "x" * 300, "", "é text", "trailing "]


def gen_history(rng, n, policies):
    """Steps: each a list of input lines (written together) - at most one of them a fixture command."""
    steps = []
    ids = rng.sample(range(0, 70000), 6) + [0]
    live = {}
    k = 0
    while len(steps) < n:
        r = rng.random()
        if r < 0.16 or not live:
            cid = rng.choice(ids)
            k += 1
            live[cid] = True
            steps.append(["%d C %s %d 10.0.0.1 6667" % (cid, rng.choice(IPS), rng.choice([1, 1024, 65535, 40000 + k]))])
            continue
        cid = rng.choice(list(live)) if rng.random() < 0.95 else rng.choice(ids)
        if r < 0.5:
            w = rng.choice(WORDS)
            steps.append([rng.choice(["%d N %s" % (cid, w), "%d d" % cid, "%d u %s" % (cid, w), "%d u" % cid, "%d n %s" % (cid, w),
                                      "%d U %s host srv :%s" % (cid, w, rng.choice(TEXTS) or "r"), "%d H" % cid, "%d P :plain %s" % (cid, w)])])
        elif r < 0.86:
            cmd = rng.choice(["setip", "setip", "setip", "sethost", "force", "trust", "weak", "mode", "challenge", "kill", "qkill", "accept", "soft", "opers", "debug",
                              "hold", "release", "softhold", "softrelease", "account", "class", "routing", "hold", "release"])
            arg = {"setip": rng.choice(NEWIPS), "sethost": rng.choice(WORDS), "force": rng.choice(WORDS), "trust": rng.choice(WORDS), "weak": rng.choice(WORDS),
                   "mode": rng.choice(["+x", "-i", "+ix", "x"]), "challenge": rng.choice(TEXTS), "kill": rng.choice(TEXTS), "qkill": rng.choice(TEXTS), "opers": rng.choice(TEXTS),
                   "debug": str(rng.choice([0, 1, 9, -1])), "account": rng.choice(["acct", "a" * 64, "a" * 70, "acct:12345", ""]), "class": rng.choice(["users", "c" * 63, "c" * 80, ""])}.get(cmd, "")
            lines = ["%d P :@%s%s" % (cid, cmd, (" " + arg) if arg or cmd in ("challenge", "kill", "qkill", "opers", "sethost", "account", "class") else "")]
            if rng.random() < 0.12:
                # something else about the same client right behind it, in the same write: the command finds the request gone / replaced
                lines.append(rng.choice(["%d D" % cid, "%d T" % cid, "%d C %s 5 10.0.0.1 6667" % (cid, rng.choice(IPS)), "%d H" % cid]))
            steps.append(lines)
        elif r < 0.91:
            steps.append([rng.choice(["%d D" % cid, "%d T" % cid])])
            live.pop(cid, None)
        elif r < 0.97:
            steps.append([rng.choice(["-1 ? stats", "-1 ? stats", "-1 ? config", "-1 M irc.example.net 20", "-1 E Garbage :text", "%d E Mismatch :x" % cid, "%d # timeout" % cid,
                                      "%d # timeout" % cid])])
        else:
            steps.append(["%d C %s %d 10.0.0.1 6667" % (cid, rng.choice(IPS), 7)])       # announced again while live
    steps.append(["-1 ? stats"])
    return steps


def classify(model_live_before, exp, act):
    """Which property a difference between the expected and the observed lines of one step is about."""
    verdict = lambda x: x[0] == "cli" and x[1] in "DRk"
    ev = [x for x in exp if verdict(x)]
    av = [x for x in act if verdict(x)]
    eids, aids = [x[2] for x in ev], [x[2] for x in av]
    for x in av:
        if aids.count(x[2]) > eids.count(x[2]):
            if x[2] in model_live_before and x[1] in "DR":
                return "C02"
            return "C01"
    for x in ev:
        if eids.count(x[2]) > aids.count(x[2]):
            return "C03"
    for x in act:
        if x[0] == "cli" and x[2] not in model_live_before:
            return "C01"
    es = [x for x in exp if x[0] == "glob" and x[1].startswith("S ")]
    as_ = [x for x in act if x[0] == "glob" and x[1].startswith("S ")]
    if es != as_:
        return "C10"
    # same clients, same verdict kinds: is it the addressing or the text?
    if len(exp) == len(act):
        for e, a in zip(exp, act):
            if e == a:
                continue
            if e[0] == "I":
                return "C09"
            if e[0] == "cli" and a[0] == "cli" and e[1:3] == a[1:3] and (e[3] != a[3] or e[4] != a[4]):
                return "C09"
            if e[0] == "cli" and a[0] == "cli" and e[1] in "CkRD" and e[:5] == a[:5]:
                return "C05"
            return "C09"
    return "C09"


def site_worker(a):
    """a = dict(build (with site_api.so), seed, n).  Returns {"viol": [(class, rule, sig, text, wit)], "stats": {...}, ...}."""
    b, seed, n = a["build"], a["seed"], a["n"]
    rng = random.Random(seed)
    pol = POLICIES[seed % len(POLICIES)]
    steps = gen_history(rng, n, pol)
    m = Model(pol)
    res = {"viol": [], "stats": {"site_histories": 1, "site_steps": 0, "site_lines_compared": 0, "site_commands": 0, "site_verdicts": 0, "site_address_changes": 0, "site_stats_reports": 0},
           "inconc": [], "hash": vcommon.h(["site", seed, n]), "nontrivial": True, "sample": None}
    d = daemon.Daemon(b, conf_text(b["moddir"]), leaks=not a.get("wrapper"), env={"VERIF_SITE_POLICIES": pol}, wrapper=tuple(a.get("wrapper") or ()), watchdog=120.0 if a.get("wrapper") else 30.0)
    log = []
    try:
        banner = d.start()
        if not any(l.startswith("V ") for l in banner):
            res["inconc"].append("no version line in the banner of a site_api run: %r" % banner[:5])
            d.kill()
            return res
        want_pol = "".join(sorted(set(pol)))
        got_pol = "".join(sorted(set(([l for l in banner if l.startswith("O S")] or ["O S"])[0][3:])))
        if want_pol != got_pol:
            res["viol"].append(("C09", "site-policies", "site-policies", "the fixture module asks for policies %r, the daemon announces %r" % (want_pol, got_pol), {"site": True, "seed": seed, "n": n}))
        for si, lines in enumerate(steps):
            live_before = set(m.live)
            m.out = []
            for ln in lines:
                m.line(ln)
            out = d.step("\n".join(lines))
            cmd_step = any(" P :@" in ln for ln in lines)
            if cmd_step:
                m.run_pending()
                out = out + d.step(None)
                res["stats"]["site_commands"] += 1
            out = [l for l in out if " sec old, " not in l]
            act = [parse_actual(l) for l in out]
            exp = []
            for e in m.out:
                exp.append(e)
            # the `I` line: the address it announces is judged, the one in its prefix is not (old or new)
            act2 = []
            for x in act:
                if x[0] == "cli" and x[1] == "I":
                    v = proto.addr_value(x[5])
                    act2.append(("I", x[2], x[4], v))
                    res["stats"]["site_address_changes"] += 1
                else:
                    act2.append(x)
            res["stats"]["site_steps"] += 1
            res["stats"]["site_lines_compared"] += len(exp)
            res["stats"]["site_verdicts"] += sum(1 for x in exp if x[0] == "cli" and x[1] in "DRk")
            res["stats"]["site_stats_reports"] += 1 if lines == ["-1 ? stats"] else 0
            log.append((lines, out))
            if exp != act2:
                cls = classify(live_before, exp, act2)
                show = lambda xs: "\n    ".join(repr(x)[:300] for x in xs) or "(nothing)"
                hist = "\n".join("  > %s\n%s" % (" | ".join(l_[:120] for l_ in li), "".join("      < %s\n" % o_[:200] for o_ in ou)) for li, ou in log[-8:])
                res["viol"].append((cls, "site-api", "site-api:%s" % cls,
                                    "fixture module site_api (policies %r), step %d: the daemon's output differs from the model of the core\n  input: %s\n  expected:\n    %s\n  observed:\n    %s\n"
                                    "last steps:\n%s" % (pol, si, lines, show(exp), show(act2), hist), {"site": True, "seed": seed, "n": n}))
                break
        r = d.finish()
    except (daemon.Died, daemon.Hang):
        try:
            r = d.finish()
        except Exception:
            d.kill()
            res["inconc"].append("daemon died in a site_api run and could not be collected")
            return res
        ev = r.crash_events()
        res["crash"] = ev
        hist = "\n".join("  > %s" % " | ".join(l_[:120] for l_ in li) for li, ou in log[-8:])
        res["viol"].append(("crash", "site-crash", "site-crash:%s|%s" % (ev[0] if ev else ("died", "?")), "the daemon died while the fixture module used the module interface: %s\n%s\nlast steps:\n%s" % (
            ev, r.stderr[-1500:], hist), {"site": True, "seed": seed, "n": n}))
        return res
    except Exception:
        d.kill()
        raise
    if not r.clean() and not res["viol"]:
        ev = r.crash_events()
        res["viol"].append(("crash", "site-crash", "site-crash:%s|%s" % (ev[0] if ev else ("unclean", "?")), "unclean exit after a site_api run: %s\n%s" % (r.describe(), r.stderr[-1500:]),
                            {"site": True, "seed": seed, "n": n}))
    res["sample"] = {"site_api_policies": pol, "input_and_output_head": [(li, ou) for li, ou in log[:12]]}
    return res


def fold_site(chk, prop, tier, scale, mult, classes, nq=24, nt=600, variant="asan"):
    """Run site_api histories and take the differences that are about `prop` (classes: e.g. ("C09",) or ("C10", "crash"))."""
    import build as buildmod
    from vcommon import Violation
    b = buildmod.build_daemon(buildmod.fresh_dir("site-%s-%s" % (prop.lower(), tier)), variant, site=True)
    jobs = [dict(build=b, seed=chk.seed * mult + k, n=[60, 120, 250][k % 3]) for k in range(int((nq if tier == "quick" else nt) * scale) or 1)]
    other = 0
    for r in vcommon.pmap(site_worker, jobs):
        chk.add_case(r["hash"], r["nontrivial"])
        chk.merge_counts(r["stats"])
        if r.get("sample"):
            chk.sample(r["sample"], limit=1)
        for w in r["inconc"]:
            chk.inconc(w)
        for (cls, rule, sig, text, wit) in r["viol"]:
            if cls in classes:
                chk.violation(Violation(prop, rule, sig, text, wit))
            else:
                other += 1
    if other:
        chk.count("site_differences_judged_by_another_check", other)
    chk.require("site_lines_compared", 300 * min(1.0, scale))


def replay_site(chk, w, prop, classes):
    import build as buildmod
    b = buildmod.build_daemon(buildmod.fresh_dir("site-replay"), "asan", site=True)
    r = site_worker(dict(build=b, seed=w["seed"], n=w["n"]))
    hit = [v for v in r["viol"] if v[0] in classes]
    for v in hit:
        print(v[3])
    return 1 if hit else 0
