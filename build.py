#!/usr/bin/env python3
"""Private builds of /repo's current working tree for the verification checks.

Never uses the repository's autotools build: every check compiles the sources
it needs directly with gcc/clang into its own directory under /verif/build/.
See DESIGN.md section 3.1.
"""
import os
import shutil
import subprocess
import sys
import time
from concurrent.futures import ThreadPoolExecutor

REPO = os.environ.get("VERIF_REPO", "/repo")
VERIF = os.path.dirname(os.path.abspath(__file__))
# development aid (mutation self-tests): build output / evidence / replays can be redirected so that
# a run against a scratch tree (VERIF_REPO) never touches the registered checks' files
OUT = os.environ.get("VERIF_OUT", VERIF)
GUARD = "IAUTHD_C_VERIF"

VARIANTS = {
    "asan": dict(cc="gcc", flags=["-O1", "-g", "-fno-omit-frame-pointer",
                                  "-fsanitize=address,undefined",
                                  "-fno-sanitize-recover=all", "-D" + GUARD]),
    "plain": dict(cc="gcc", flags=["-O0", "-g", "-D" + GUARD]),
    "cov": dict(cc="gcc", flags=["-O0", "-g", "--coverage", "-D" + GUARD]),
    "fuzz": dict(cc="clang", flags=["-O1", "-g", "-fno-omit-frame-pointer",
                                    "-fsanitize=fuzzer-no-link,address,undefined",
                                    "-fno-sanitize-recover=all", "-D" + GUARD]),
}

CORE_SRCS = ["accumulators.c", "bitset.c", "common.c", "config.c", "git-version.c",
             "log.c", "main.c", "module.c", "set.c"]

CPPDEFS = ['-DHAVE_CONFIG_H', '-DSYSCONFDIR="/nonexistent/etc"',
           '-DMODULESDIR="/nonexistent/lib"', '-DLOGDIR="/nonexistent/log"']
WARN = ["-w"]


# development aid (tools/coverage.py): VERIF_VARIANT_OVERRIDE=cov builds every "asan" artifact with --coverage instead
_OVERRIDE = os.environ.get("VERIF_VARIANT_OVERRIDE")


def _variant(name):
    if _OVERRIDE and name == "asan":
        return VARIANTS[_OVERRIDE]
    return VARIANTS[name]


class BuildError(Exception):
    pass


def _run(cmd, cwd=None):
    p = subprocess.run(cmd, cwd=cwd, stdout=subprocess.PIPE, stderr=subprocess.STDOUT, text=True)
    if p.returncode != 0:
        raise BuildError("command failed: %s\n%s" % (" ".join(cmd), p.stdout[-4000:]))
    return p.stdout


def _incdirs(out):
    """Include path: a private dir holding autoconf.h, then the repo root."""
    inc = os.path.join(out, "inc")
    os.makedirs(inc, exist_ok=True)
    src = os.path.join(REPO, "autoconf.h")
    if not os.path.exists(src):
        src = os.path.join(VERIF, "harness", "autoconf.h")
    shutil.copy(src, os.path.join(inc, "autoconf.h"))
    return ["-I" + inc, "-I" + REPO]


def fresh_dir(name):
    out = os.path.join(OUT, "build", name)
    shutil.rmtree(out, ignore_errors=True)
    os.makedirs(out)
    return out


def compile_objs(out, variant, sources, pic=False, extra=()):
    """sources: list of absolute paths; returns list of object paths (same order)."""
    v = _variant(variant)
    inc = _incdirs(out)
    jobs = []
    for s in sources:
        tag = os.path.basename(os.path.dirname(s)) + "_" + os.path.basename(s)
        o = os.path.join(out, tag[:-2] + (".pic.o" if pic else ".o"))
        cmd = [v["cc"]] + v["flags"] + WARN + CPPDEFS + inc + list(extra)
        if pic:
            cmd.append("-fPIC")
        cmd += ["-c", s, "-o", o]
        jobs.append((cmd, o))
    with ThreadPoolExecutor(max_workers=int(os.environ.get("VERIF_JOBS", "16"))) as ex:
        list(ex.map(lambda j: _run(j[0]), jobs))
    return [j[1] for j in jobs]


def link_flags(variant):
    v = _variant(variant)
    fl = [f for f in v["flags"] if f.startswith("-fsanitize") or f == "--coverage" or f == "-g"]
    return fl


def build_daemon(out, variant="asan", site=False):
    """Build iauthd-c and the three decision modules; returns dict of paths."""
    v = _variant(variant)
    objs = compile_objs(out, variant, [os.path.join(REPO, "src", s) for s in CORE_SRCS])
    exe = os.path.join(out, "iauthd-c")
    _run([v["cc"]] + link_flags(variant) + ["-rdynamic", "-o", exe] + objs +
         ["-levent", "-lm", "-ldl"])
    moddir = os.path.join(out, "modules")
    os.makedirs(moddir, exist_ok=True)
    mods = {"iauth": ["iauth_core.c", "iauth_misc.c"],
            "iauth_xquery": ["iauth_xquery.c"],
            "iauth_class": ["iauth_class.c"]}
    for name, srcs in mods.items():
        mo = compile_objs(out, variant, [os.path.join(REPO, "modules", s) for s in srcs], pic=True)
        _run([v["cc"]] + link_flags(variant) + ["-shared", "-o",
             os.path.join(moddir, name + ".so")] + mo)
    if site:
        # the fixture decision module (harness/siteapi.c) that drives the parts of the module interface no shipped module uses
        mo = compile_objs(out, variant, [os.path.join(VERIF, "harness", "siteapi.c")], pic=True)
        _run([v["cc"]] + link_flags(variant) + ["-shared", "-o", os.path.join(moddir, "site_api.so")] + mo)
    return {"exe": exe, "moddir": moddir, "out": out}


def build_harness(out, variant, name, harness_src, repo_srcs, libs=("-levent", "-lm", "-ldl"),
                  extra=(), link_extra=()):
    """Link a harness main (from /verif/harness) against unmodified repo sources."""
    v = _variant(variant)
    srcs = [os.path.join(VERIF, "harness", harness_src)] + [os.path.join(REPO, s) for s in repo_srcs]
    objs = compile_objs(out, variant, srcs, extra=extra)
    exe = os.path.join(out, name)
    _run([v["cc"]] + link_flags(variant) + list(link_extra) + ["-rdynamic", "-o", exe] + objs + list(libs))
    return exe


def build_shared(out, variant, name, harness_src, extra=()):
    v = _variant(variant)
    objs = compile_objs(out, variant, [os.path.join(VERIF, "harness", harness_src)], pic=True, extra=extra)
    so = os.path.join(out, name + ".so")
    _run([v["cc"]] + link_flags(variant) + ["-shared", "-o", so] + objs)
    return so


def repo_state():
    """Short description of the tree that was built (for evidence)."""
    try:
        head = subprocess.run(["git", "-C", REPO, "rev-parse", "--short", "HEAD"],
                              stdout=subprocess.PIPE, text=True).stdout.strip()
        dirty = subprocess.run(["git", "-C", REPO, "status", "--porcelain", "--untracked-files=no"],
                               stdout=subprocess.PIPE, text=True).stdout.strip()
        return head + ("+dirty" if dirty else "")
    except Exception:
        return "unknown"


if __name__ == "__main__":
    t = time.time()
    variant = sys.argv[1] if len(sys.argv) > 1 else "asan"
    out = fresh_dir("manual-" + variant)
    print(build_daemon(out, variant), "%.1fs" % (time.time() - t))
