#!/usr/bin/env python3
"""seed_matrix.py [--seeds 2,3] [names...]: run every kept seeded change against the check that is meant to catch it, for several
VERIF_SEED values, and report the detections that depend on the seed.  Each run applies the patch to a scratch worktree of /repo HEAD
(under /tmp, removed afterwards) and points the check at it (VERIF_REPO / VERIF_OUT); nothing in /repo or in the registered checks'
files is touched.  Development aid."""
import json, os, shutil, subprocess, sys, tempfile
from concurrent.futures import ThreadPoolExecutor

SEEDED = "/verif/seeded"
args = sys.argv[1:]
seeds = [2, 3]
if args and args[0] == "--seeds":
    seeds = [int(x) for x in args[1].split(",")]
    args = args[2:]
names = args or sorted(os.listdir(SEEDED))
PAR = 4


def one(name):
    d = os.path.join(SEEDED, name)
    meta = json.load(open(os.path.join(d, "meta.json")))
    prop = meta.get("check_property", meta["property"])
    base = tempfile.mkdtemp(prefix="sm-", dir="/tmp")
    wt = os.path.join(base, "wt")
    out = os.path.join(base, "out")
    os.makedirs(out)
    res = {}
    try:
        subprocess.run(["git", "-C", "/repo", "worktree", "add", "--detach", wt, "HEAD"], stdout=subprocess.DEVNULL, stderr=subprocess.DEVNULL, check=True)
        r = subprocess.run(["git", "-C", wt, "apply", os.path.join(d, "patch.diff")], stdout=subprocess.PIPE, stderr=subprocess.STDOUT, text=True)
        if r.returncode:
            return name, prop, {"apply": "FAILED"}
        for sd in seeds:
            env = dict(os.environ, VERIF_REPO=wt, VERIF_OUT=out, VERIF_SEED=str(sd), VERIF_JOBS="5")
            r = subprocess.run([sys.executable, "/verif/vcheck.py", prop, "--tier", "quick"], cwd="/verif", env=env, stdout=subprocess.PIPE, stderr=subprocess.STDOUT, text=True)
            res[sd] = {0: "MISSED", 1: "detected", 2: "INCONCLUSIVE"}.get(r.returncode, "rc=%d" % r.returncode)
    finally:
        subprocess.run(["git", "-C", "/repo", "worktree", "remove", "--force", wt], stdout=subprocess.DEVNULL, stderr=subprocess.DEVNULL)
        shutil.rmtree(base, ignore_errors=True)
    return name, prop, res


with ThreadPoolExecutor(PAR) as ex:
    for name, prop, res in ex.map(one, names):
        flag = "" if all(v == "detected" for v in res.values()) else "   <== FRAGILE"
        print("%-60s %s %s%s" % (name, prop, " ".join("%s=%s" % (k, v) for k, v in res.items()), flag), flush=True)
