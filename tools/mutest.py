#!/usr/bin/env python3
"""mutest.py <patch.diff|--revert COMMIT> <PROP>... : apply a change to a scratch worktree of /repo (outside /repo and /verif),
run the given checks (quick tier) against it, report which detect it, remove the worktree.  Development aid only."""
import os
import shutil
import subprocess
import sys
import tempfile

args = sys.argv[1:]
tier = "quick"
if args and args[0] == "--thorough":
    tier = "thorough"
    args = args[1:]
if args[0] == "--revert":
    mode, what, props = "revert", args[1], args[2:]
else:
    mode, what, props = "patch", os.path.abspath(args[0]), args[1:]
base = tempfile.mkdtemp(prefix="mt-", dir="/tmp")
wt = os.path.join(base, "wt")
out = os.path.join(base, "out")
os.makedirs(out)
subprocess.run(["git", "-C", "/repo", "worktree", "add", "--detach", wt, "HEAD"], stdout=subprocess.DEVNULL, stderr=subprocess.DEVNULL, check=True)
rc_all = 0
try:
    if mode == "revert":
        r = subprocess.run(["git", "-C", wt, "revert", "--no-commit", what], stdout=subprocess.PIPE, stderr=subprocess.STDOUT, text=True)
    else:
        r = subprocess.run(["git", "-C", wt, "apply", what], stdout=subprocess.PIPE, stderr=subprocess.STDOUT, text=True)
    if r.returncode:
        print("APPLY FAILED:", r.stdout)
        sys.exit(3)
    env = dict(os.environ, VERIF_REPO=wt, VERIF_OUT=out)
    for p in props:
        r = subprocess.run([sys.executable, "/verif/vcheck.py", p, "--tier", tier], cwd="/verif", env=env, stdout=subprocess.PIPE, stderr=subprocess.STDOUT, text=True)
        sigs = [l.strip() for l in r.stdout.splitlines() if "signature=" in l]
        status = {0: "MISSED (exit 0)", 1: "DETECTED", 2: "INCONCLUSIVE"}.get(r.returncode, "rc=%d" % r.returncode)
        print("%s: %s %s" % (p, status, "; ".join(s.split("signature=")[1] for s in sigs[:4])))
        if r.returncode == 2:
            print("\n".join(l for l in r.stdout.splitlines() if "INCONCLUSIVE" in l or "BUILD FAILED" in l or "Error" in l)[:1500])
        if os.environ.get("MUTEST_VERBOSE"):
            print(r.stdout[-3000:])
finally:
    subprocess.run(["git", "-C", "/repo", "worktree", "remove", "--force", wt], stdout=subprocess.DEVNULL, stderr=subprocess.DEVNULL)
    shutil.rmtree(base, ignore_errors=True)
