#!/usr/bin/env python3
"""Regenerates /verif/MANIFEST.json from the table below (keeps it consistent and valid)."""
import json
import os
import subprocess
import sys

VERIF = os.path.dirname(os.path.dirname(os.path.abspath(__file__)))

# property -> (level category, technique, level text, level note, design ref)
T = {
 "C01": ("exploration", "runtime trace monitor (per-client automaton) over lock-step histories of the real daemon",
         "Online trace automaton per announced client instance judges every stdout line of the real daemon (ASan/UBSan build) on generated histories with heavy id reuse, re-announcement while live, late/duplicate replies and hook-fired timeouts; held on the histories explored, nothing more. A verdict produced by the real request timer while the server is silent is judged by the order of system calls under strace: its write must precede the read that delivers the server's withdrawal. The module interface no shipped module uses is driven through a fixture module (site_api) loaded by the real daemon and compared line for line with an executable model of the core; the differences that concern this property are taken here.",
         "Trusts the guarded sync pseudo-command for attributing output to input lines; message grammar taken from the daemon's own call sites.", "4/C01"),
 "C02": ("exploration", "runtime trace monitor (one-sided acceptance oracle) over enumerated event orders with hook-fired timeouts",
         "Every D/R line emitted by the real daemon is judged against the input history (required data, unanswered queries, +! without account, NO replies) over all arrival orders of the data items x service tables x reply scripts, timeout/hurry-up inserted at every position; random histories with SIGUSR1 reloads; service tables of 31-40 services; directed reload scripts; real-timer id re-use judged by a one-sided clock oracle. Real timers across a reload that raises the timeout. The module interface no shipped module uses is driven through a fixture module (site_api) loaded by the real daemon and compared line for line with an executable model of the core; the differences that concern this property are taken here.",
         "Required items are read from the policy line the daemon itself prints; timeouts are fired through the guarded hook exactly as the one-shot timer would.", "4/C02"),
 "C03": ("exploration", "runtime trace monitor (bounded-progress oracle evaluated after every step) + stats cross-check",
         "After every input line the monitor checks that no open client satisfies all release conditions without a verdict in that same step; histories weight late/duplicate/unexpected replies, repeated passwords, timeouts; daemon crash counts as everybody stuck; bursts of 40-700 clients written in one piece on the unhooked channel are judged when the daemon sleeps in epoll_wait with its input drained (read from /proc and the pipe, not a deadline). Half of the bursts run over ONE socket that is the daemon's standard input and output (as under an IRC server) with a reader who falls behind. The module interface no shipped module uses is driven through a fixture module (site_api) loaded by the real daemon and compared line for line with an executable model of the core; the differences that concern this property are taken here.",
         "Bounded form of liveness as the statement itself gives it (same step); generator restricted to unambiguous replies and passwords.", "4/C03"),
 "C04": ("exploration", "differential runtime monitoring: same history with and without stray replies, outputs compared step by step",
         "Pairs of real-daemon runs that differ only by inserted stray replies/unlinked notices (stale serial, unknown/not-awaited service, malformed or near-miss tag) must produce identical output; any output in the step of the stray line is a violation; directed slot-reuse (reload) and serial-wrap (2^8..2^16 connections) scenarios; tables of 33-64 services with replies from the ones the daemon refused, judged by the trace monitor on the sanitized and the plain build. Replies that bear a retired service name, and replies from a service never asked after a reload misspelt the type of the awaited one.",
         "Stray-ness is computed from the awaiting pairs observed in the base run; tags that strtol/strtoul would read as a live tag are not generated.", "4/C04"),
 "C05": ("exploration", "runtime trace monitor on verdict / relay content",
         "Trace rules tie each k/R/D/M/C line of the real daemon to the reply that caused it (text byte-for-byte, account only from awaited login-type services of this instance, class from the reference rule evaluator, +x when hiding was requested). The module interface no shipped module uses is driven through a fixture module (site_api) loaded by the real daemon and compared line for line with an executable model of the core; the differences that concern this property are taken here.",
         "Weakest reading of the +x clause; reply texts limited to printable ASCII within the line limit.", "4/C05"),
 "C06": ("exploration", "runtime trace monitor on query timing and content",
         "Per client and configured service: no query before the protocol's prerequisites (or H), a query in the very step they become complete, content equal to the protocol format filled with the client's own fields cut to the documented limits, malformed passwords never forwarded; all arrival orders x protocols x boundary-length fields. Bursts of complete clients (half of them over a shared socket with a slow reader) are judged at quiescence: the drone check was asked about each, once.",
         "User info is rendered with the two parameters the daemon's parser reads (recorded assumption).", "4/C06"),
 "C07": ("exploration", "differential runtime monitoring: solo run vs many interleavings, per-client projection; table audit hook",
         "Each client script is run alone, then merged with others in many order-preserving interleavings; the projection of the daemon's output onto each client (serial renumbered) must equal the solo conversation; the guarded audit hook checks the request table's structure; directed sets around reloads and id re-use; real 2 s request timers next to each other judged by a one-sided clock oracle. Bursts of clients given the same lines (half of them over a shared socket with a slow reader): the daemon says the same about each.",
         "Replies are addressed symbolically (n-th query to service s) so scripts are interleaving-independent.", "4/C07"),
 "C08": ("exploration", "sanitizers (ASan+UBSan+LSan) + exit-status/hang watchdog + differential (chunking, junk) on hostile byte streams",
         "Grammar-aware hostile streams, every/sampled prefixes (peer death), read-chunk segmentations via the guarded chunk hook, transient read errors injected by an LD_PRELOAD shim, real-timer interruptions (1.6 s and 11.3 s, the latter so that statistics report requests older than ten seconds), streams interrupted by a SIGUSR1 that re-lists the modules, dense bursts of short lines, and junk-line insertion; hostile streams and odd rule tables on the unsanitized build under valgrind memcheck; the well-formed workloads of C11 / C12 / C06 and random histories under this oracle alone; oracle = clean exit, no sanitizer report, no hang, identical treatment of the good lines.",
         "A clean sanitizer run is not memory safety (non-adjacent/intra-object overflows are missed); bounded stream sizes.", "4/C08"),
 "C09": ("exploration", "runtime monitor: output grammar + independent address parser on the unhooked channel",
         "Every stdout line from the banner on must match one production of the message grammar; client messages must carry the announced id, an address text that Python's ipaddress reads as the announced value, and the announced port; run with no hook commands and with warning/error-producing events and several logs sections. The module interface no shipped module uses is driven through a fixture module (site_api) loaded by the real daemon and compared line for line with an executable model of the core; the differences that concern this property are taken here.",
         "Grammar extracted from the iauth_send call sites; debug mode excluded by the statement.", "4/C09"),
 "C10": ("exploration", "runtime counting monitor vs `? stats` + ASan/LSan at exit + real-timer runs",
         "A model set of live clients is compared with the daemon's reported 'in use' count at random points of long histories (thousands of clients, id reuse, duplicate announcements); end of input must give exit 0 with no leak and no use-after-free, including runs with real 1-second timers. End of input with 200 000 (thorough: 600 000) requests pending, announced in ascending / descending id order. One long pipelined history runs over a shared socket with a slow reader. The module interface no shipped module uses is driven through a fixture module (site_api) and compared line for line with an executable model of the core: request counters and callback counts are taken here.",
         "LeakSanitizer decides 'released'; real-timer runs use wall-clock waits only to let timers expire, never as verdicts.", "4/C10"),
 "C11": ("exploration", "reference-model monitor: Python rule evaluator vs class field of the real daemon's verdicts",
         "Random rule tables (names whose ASCII order differs from case-insensitive order, all criteria subsets, CIDR/wildcard masks) x probe clients built to hit and just-miss each criterion; the class on D/R and the U upgrade must equal the reference model's.",
         "Globs limited to literals, * and ? with an own matcher.", "4/C11"),
 "C12": ("exploration", "exhaustive-abstraction + random runtime checking against inet_pton under ASan/UBSan",
         "All 5^8 digit-count patterns of the eight groups x 3 fillings, mapped/compatible shapes, random values, every out_size 1..40, and parser-accepted addresses: print, re-parse with irc_pton and inet_pton, compare values, check fixed point, length and leading character; plus the real daemon announced clients with texts drawn from the same abstraction and driven to a verdict plainly, through address rules, by the timer and as a re-announced id: every output line about a client must denote the announced address.",
         "glibc inet_pton is the reference; exact-size heap buffers so ASan red zones are adjacent.", "4/C12"),
 "C13": ("exploration", "bit-by-bit reference oracle + sanitizers on enumerated/grammar/mutated strings",
         "irc_check_mask vs a bit-by-bit oracle on boundary-focused and (thorough) exhaustive per-group differences at every length; grammar-derived mask texts with independently computed (bits, network); all short strings over the address alphabet, mutated seeds and libFuzzer-generated strings in exact-size heap buffers in all four call modes under ASan+UBSan; agreement with inet_pton where both accept.",
         "IPv4 masks count from bit 96, as the repository's tests state.", "4/C13"),
 "C14": ("fault_enumeration", "fault enumeration (every truncation point / byte substitution) under sanitizers with before/after dump and hook-log oracle",
         "Valid generated files truncated at every byte and with hostile single-byte substitutions, loaded on top of several prior configurations in a harness linking the unmodified config code: no sanitizer report, termination, and on a reported error an unchanged live-tree dump and an empty hook log; a few files carry modification times in the future or far past. Read faults injected into the configuration file's fread()/read() calls (cut by a signal, I/O error part-way, file shorter than fstat said, stale errno on an empty file): the load terminates and a reported error leaves tree and hook log untouched.",
         "Files <= 4 KiB; parser leaks on error paths are counted, not judged.", "4/C14"),
 "C15": ("exploration", "runtime monitor: expected tree by construction + differential vs fresh process + hook log, under ASan/LSan",
         "Sequences of valid files over a small name/type universe with registrations before/between/after loads: values = last file or default, no unregistered leftovers, dump equals that of a fresh process on the last file, idempotent reload silent, hooks delivered on effective change, as many file descriptors open after a history as before it. A load that succeeds although the file read misbehaved once (injected EINTR / EIO / short read) must give the tree of the whole file.",
         "Spurious hooks on changed content are tolerated.", "4/C15"),
 "C16": ("exploration", "round-trip runtime monitor: generated tree -> random admissible rendering -> parse -> dump comparison; feature attribution",
         "Random trees rendered with independently toggled layout features (quoting, escapes, list forms, terminators, comments, whitespace, repeats) must dump as the tree; typed values compared with their arithmetic meaning; unparsable typed values must leave the previous value in force.",
         "Grammar reference is the comment at the top of doc/iauthd-c.conf.example; NUL excluded.", "4/C16"),
 "C17": ("exploration", "differential runtime monitoring: reloaded daemon vs freshly started daemon on the same probes (real SIGUSR1)",
         "For (old,new) configuration pairs covering add/remove/change-in-place of services and rules, a daemon reloaded by a real SIGUSR1 must treat a probe set exactly like a daemon started on the new file (files overwritten in place, renamed into place, renamed with an old modification time, installed by re-pointing a symbolic link in the -f path, or after a first SIGUSR1 that failed for want of file descriptors); input already queued when the reload happens is judged by the order of lines in the output: old rules before the guarded reload marker, new rules after it.",
         "Reload completion observed through the guarded marker hook; pre-reload clients are finished or disconnected first.", "4/C17"),
 "C18": ("exploration", "reference-model monitor of the routing table vs destination files read back",
         "Random logs sections (all operators, comma lists, *, invalid entries, shared destinations) and reload sequences; one uniquely numbered message per (facility, severity); file membership must equal the model's, lines complete and attributed, the section as dumped after use equal to the section as written; one destination may be unwritable (/dev/full). In some cases no log file can be written for one round (RLIMIT_FSIZE 0) and then can again: the following round is all due.",
         "Severity lists without empty items; fatal messages emitted in forked children.", "4/C18"),
 "C19": ("exploration", "complete shape-graph exploration + long random sequences against a sorted-array model with structural audit, under ASan/UBSan/LSan",
         "Breadth-first exploration of every reachable splay-tree shape over universes of 1..7 keys applying every operation from every shape; long random sequences per stock comparator including extreme ints; sets of 1500-60000 keys filled in key order and operated on at the far end; comparator laws; after every operation result vs model, structural audit, cleanup exactly-once accounting.",
         "Harness supplies xmalloc so that only src/set.c is linked.", "4/C19"),
 "C20": ("exploration", "event-log monitor over stub modules loaded by the real daemon, enumerated dependency graphs",
         "All labelled DAGs on <=4 (quick) / 5 (thorough) stub modules x listing orders, cyclic graphs, missing modules, dependencies declared by module_antidepends, partial listings in which a back end pulls in its front end, constructor-less and hook-less modules, slow destructors and graphs of 260-300 modules, run through the real `iauthd-c -k`, and live runs reloaded with another modules list and stopped by SIGHUP; ordering constraints on constructor/post-init/destructor events and exit status.",
         "Stub modules are copies of one fixture shared object reading the graph from the environment.", "4/C20"),
}

READY = sorted(os.environ.get("VERIF_READY", "").split()) or None


def main():
    ready_file = os.path.join(VERIF, "tools", "ready.txt")
    ready = [l.strip() for l in open(ready_file) if l.strip() and not l.startswith("#")]
    hooks = subprocess.run(["git", "-C", "/repo", "log", "--format=%h %s", "--grep=^verif hook"],
                           stdout=subprocess.PIPE, text=True).stdout.strip().splitlines()
    checks = []
    for pid in sorted(T):
        if pid not in ready:
            continue
        cat, tech, text, note, ref = T[pid]
        checks.append({
            "property_id": pid,
            "quick_cmd": "python3 vcheck.py %s --tier quick" % pid,
            "thorough_cmd": "python3 vcheck.py %s --tier thorough" % pid,
            "evidence_file": "evidence/%s.json" % pid,
            "replay_cmd_template": "python3 vcheck.py %s --replay {path}" % pid,
            "engine": "vcheck",
            "level_claimed": {"category": cat, "text": text, "design_ref": "DESIGN.md section " + ref},
            "level_note": note,
            "technique": tech,
        })
    na = [{"property_id": pid, "reason": "check not finished yet in this round (runtime monitoring applies; see DESIGN.md section 4)"}
          for pid in sorted(T) if pid not in ready]
    man = {
        "version": 1,
        "setup_cmd": "python3 tools/setup_check.py",
        "hooks": {
            "guard": "IAUTHD_C_VERIF",
            "enable": "checks compile /repo's sources themselves with -DIAUTHD_C_VERIF (build.py); the autotools build never defines it",
            "baseline_off_cmd": "make -C /repo check",
            "source_commits": [h.split()[0] for h in hooks],
            "add_only": True,
        },
        "engines": [{"name": "vcheck", "path": "vcheck.py", "serves_properties": ready,
                     "kind_free_text": "runtime monitoring: real code under generated workloads, sanitizers + trace/reference-model/differential monitors"}],
        "checks": checks,
        "notes": "exit 0 held / 1 violation / 2 inconclusive or harness failure. Known findings: known_findings.json. See DESIGN.md.",
        "not_applicable": na,
    }
    with open(os.path.join(VERIF, "MANIFEST.json"), "w") as f:
        json.dump(man, f, indent=1)
    print("MANIFEST.json written: %d checks, %d not claimed" % (len(checks), len(na)))


if __name__ == "__main__":
    sys.exit(main())
