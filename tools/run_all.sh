#!/bin/sh
# run_all.sh <tier> [seed] : run every claimed check, print one status line each
tier=${1:-quick}; seed=${2:-1}
cd "$(dirname "$0")/.."
for id in $(cat tools/ready.txt); do
  s=$(date +%s)
  VERIF_SEED=$seed python3 vcheck.py $id --tier $tier > /tmp/run_${tier}_$id.out 2>&1; rc=$?
  e=$(date +%s)
  echo "$id rc=$rc $((e-s))s $(grep -c '^VIOLATION' /tmp/run_${tier}_$id.out) violations $(grep -c '^KNOWN-FINDING' /tmp/run_${tier}_$id.out) known $(grep -c '^INCONCLUSIVE' /tmp/run_${tier}_$id.out) inconclusive"
done
