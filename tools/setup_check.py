#!/usr/bin/env python3
"""MANIFEST.setup_cmd: nothing persistent is built (every check rebuilds from /repo);
this only verifies that the toolchain the checks need is present."""
import os
import shutil
import subprocess
import sys
import tempfile

ok = True
for tool in ("gcc", "clang", "python3"):
    if not shutil.which(tool):
        print("missing tool:", tool)
        ok = ok and tool == "clang"
d = tempfile.mkdtemp()
try:
    src = os.path.join(d, "t.c")
    open(src, "w").write('#include <event2/event.h>\nint main(void){return event_base_new()==0;}\n')
    p = subprocess.run(["gcc", "-fsanitize=address,undefined", src, "-o", os.path.join(d, "t"), "-levent"],
                       stdout=subprocess.PIPE, stderr=subprocess.STDOUT, text=True)
    if p.returncode:
        print("cannot build with sanitizers + libevent:\n" + p.stdout)
        ok = False
    else:
        r = subprocess.run([os.path.join(d, "t")])
        ok = ok and r.returncode == 0
finally:
    shutil.rmtree(d, ignore_errors=True)
os.makedirs(os.path.join(os.path.dirname(os.path.dirname(os.path.abspath(__file__))), "evidence"), exist_ok=True)
print("setup ok" if ok else "setup FAILED")
sys.exit(0 if ok else 1)
