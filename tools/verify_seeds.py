#!/usr/bin/env python3
"""verify_seeds.py [names...]: for every kept seeded change: on a scratch built worktree of /repo HEAD (outside /repo and /verif) apply it,
build, run the repository's suite (must pass), run the demonstration (must fail), undo, run the demonstration (must pass); then run the
property's own quick check against a scratch tree with the change (must report a violation).  Updates meta.json.  Development aid."""
import json, os, subprocess, sys, shutil
from concurrent.futures import ThreadPoolExecutor

SEEDED = "/verif/seeded"
POOL = "/tmp/vs%d" % os.getpid()
NW = 5
head = subprocess.run(["git", "-C", "/repo", "rev-parse", "--short", "HEAD"], stdout=subprocess.PIPE, text=True).stdout.strip()


def sh(cmd, cwd=None, timeout=600):
    try:
        p = subprocess.run(cmd, shell=True, cwd=cwd, stdout=subprocess.PIPE, stderr=subprocess.STDOUT, text=True, timeout=timeout)
        return p.returncode, p.stdout
    except subprocess.TimeoutExpired as e:
        return 124, (e.stdout or "") if isinstance(e.stdout, str) else ""


def setup(i):
    wt = "%s/w%d" % (POOL, i)
    if os.path.exists(wt):
        sh("git -C /repo worktree remove --force %s" % wt)
        shutil.rmtree(wt, ignore_errors=True)
    rc, out = sh("/verif/tools/mkwt.sh %s" % wt)
    return wt


def verify(args):
    name, wt = args
    d = os.path.join(SEEDED, name)
    meta = json.load(open(os.path.join(d, "meta.json")))
    prop = meta.get("check_property", meta["property"])
    res = {}
    sh("git checkout -q -- . && make", cwd=wt)
    rc, _ = sh("git apply %s/patch.diff" % d, cwd=wt)
    res["applies"] = rc == 0
    if rc != 0:
        return name, res
    rc, out = sh("make", cwd=wt)
    res["builds"] = rc == 0
    rc, out = sh("make check 2>&1 | grep -E '^# (PASS|FAIL)' | tr '\\n' ' '", cwd=wt)
    res["suite"] = out.strip()
    rc, out = sh("sh %s/demo.sh %s" % (d, wt), cwd=d, timeout=300)
    res["demo_with_change_rc"] = rc
    sh("git checkout -q -- . && make", cwd=wt)
    rc, out = sh("sh %s/demo.sh %s" % (d, wt), cwd=d, timeout=300)
    res["demo_without_change_rc"] = rc
    rc, out = sh("python3 /verif/tools/mutest.py %s/patch.diff %s" % (d, prop), timeout=1500)
    res["own_check"] = out.strip().splitlines()[0][:300] if out.strip() else "no output"
    res["ok"] = (res["builds"] and "FAIL:  0" in res["suite"] and res["demo_with_change_rc"] not in (0, 124) and res["demo_without_change_rc"] == 0
                 and "DETECTED" in res["own_check"])
    meta["verified_at_repo_head"] = head
    meta["verification"] = res
    json.dump(meta, open(os.path.join(d, "meta.json"), "w"), indent=1)
    # demos may leave build products behind
    sh("find %s -name '*.o' -o -name '*.so' -o -name 'a.out' | xargs rm -f" % d)
    return name, res


names = sys.argv[1:] or sorted(os.listdir(SEEDED))
os.makedirs(POOL, exist_ok=True)
with ThreadPoolExecutor(NW) as ex:
    wts = list(ex.map(setup, range(NW)))
buckets = [[] for _ in range(NW)]
for k, n in enumerate(names):
    buckets[k % NW].append(n)


def run_bucket(i):
    out = []
    for n in buckets[i]:
        r = verify((n, wts[i]))
        print("%-45s %s" % (r[0], "OK" if r[1].get("ok") else "PROBLEM " + json.dumps(r[1])), flush=True)
        out.append(r)
    return out


with ThreadPoolExecutor(NW) as ex:
    list(ex.map(run_bucket, range(NW)))
for wt in wts:
    sh("git -C /repo worktree remove --force %s" % wt)
shutil.rmtree(POOL, ignore_errors=True)
