#!/bin/sh
# mkwt.sh <dir> : scratch git worktree of /repo HEAD, configured and built (outside /repo and /verif)
set -e
d=$1
git -C /repo worktree add --detach "$d" HEAD >/dev/null 2>&1
cd "$d"
for f in configure Makefile.in aclocal.m4 autoconf.h.in autoconf libtool; do cp -a /repo/$f . 2>/dev/null || true; done
./configure >/dev/null 2>&1
make -j4 >/dev/null 2>&1
make check 2>&1 | grep -E "^# (PASS|FAIL)" | tr '\n' ' '
echo " $d"
