#!/usr/bin/env python3
"""keep_seed.py <Cxx> <N> <slug> <needs> <detected-by> : copy a confirmed sub-agent change into /verif/seeded/<Cxx>-<slug>/"""
import json, os, shutil, sys
cid, n, slug, needs, detected = sys.argv[1:6]
src = "%s/%s/SEED/%s" % (os.environ.get("SEEDBASE", "/tmp/seed"), cid, n)
dst = "/verif/seeded/%s-%s" % (cid, slug)
shutil.rmtree(dst, ignore_errors=True)
os.makedirs(dst)
for f in os.listdir(src):
    p = os.path.join(src, f)
    if os.path.isfile(p) and os.path.getsize(p) < 200000:
        shutil.copy(p, dst)
    elif os.path.isdir(p):
        shutil.copytree(p, os.path.join(dst, f), ignore=shutil.ignore_patterns("*.o", "*.so", "*.log"))
meta = {"property": cid, "breaks": open(os.path.join(src, "notes.md")).read()[:1500] if os.path.exists(os.path.join(src, "notes.md")) else "",
        "needs_to_manifest": needs,
        "confirmed": "applied with git apply to a scratch worktree of /repo HEAD (outside /repo and /verif); make and make check (89/89) pass with the change; "
                     "demo.sh exits non-zero with the change and 0 without (tools/try_seed.sh)",
        "checks_run": "tools/mutest.py patch.diff <props> (quick tier, VERIF_REPO = scratch worktree)",
        "detected_by": detected}
json.dump(meta, open(os.path.join(dst, "meta.json"), "w"), indent=1)
print("kept", dst)
