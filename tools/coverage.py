#!/usr/bin/env python3
"""coverage.py [Cxx ...] [--tier quick]: which lines of each property's anchored source ranges does its check's workload execute?

Builds every artifact of the check with gcc --coverage instead of the sanitizers (VERIF_VARIANT_OVERRIDE=cov), runs the check with
evidence / replays / build output redirected to a scratch directory, runs gcov and intersects the result with the line ranges named in
properties.jsonl (anchors.state[].where, anchors.mechanism[].where).  Development aid and evidence of reach only - never a verdict.
Writes coverage/<id>.json (executed / executable lines per anchored range, list of unexecuted lines)."""
import glob
import json
import os
import re
import shutil
import subprocess
import sys
import tempfile

VERIF = os.path.dirname(os.path.dirname(os.path.abspath(__file__)))
REPO = os.environ.get("VERIF_REPO", "/repo")


def ranges(prop):
    out = []
    a = prop["anchors"]
    for item in a.get("state", []) + a.get("mechanism", []):
        for part in item["where"].split(";"):
            part = part.strip()
            m = re.match(r"(\S+?):([\d,\-]+)$", part)
            if not m:
                continue
            f = m.group(1)
            for r in m.group(2).split(","):
                lo, _, hi = r.partition("-")
                out.append((f, int(lo), int(hi or lo), item["name"]))
    return out


def gcov_dir(bdir, tmp):
    """returns {source basename path relative to repo: {line: count or None}}"""
    res = {}
    for gcno in glob.glob(os.path.join(bdir, "**", "*.gcno"), recursive=True):
        d = os.path.dirname(gcno)
        p = subprocess.run(["gcov", "-o", d, gcno], cwd=tmp, stdout=subprocess.PIPE, stderr=subprocess.STDOUT, text=True)
    for g in glob.glob(os.path.join(tmp, "*.gcov")):
        src = None
        lines = {}
        for ln in open(g, errors="replace"):
            m = re.match(r"\s*([^:]+):\s*(\d+):(.*)$", ln)
            if not m:
                continue
            cnt, no, text = m.group(1).strip(), int(m.group(2)), m.group(3)
            if no == 0:
                if text.startswith("Source:"):
                    src = text[len("Source:"):]
                continue
            if cnt == "-":
                continue
            c = 0 if cnt.startswith("#") or cnt.startswith("=") else int(re.sub(r"\D", "", cnt) or 0)
            lines[no] = max(lines.get(no, 0), c)
        if src and src.startswith(REPO):
            rel = os.path.relpath(src, REPO)
            cur = res.setdefault(rel, {})
            for k, v in lines.items():
                cur[k] = max(cur.get(k, 0), v)
        os.unlink(g)
    return res


def main():
    args = [a for a in sys.argv[1:] if not a.startswith("--")]
    tier = "quick"
    if "--tier" in sys.argv:
        tier = sys.argv[sys.argv.index("--tier") + 1]
        args = [a for a in args if a != tier]
    props = {json.loads(l)["id"]: json.loads(l) for l in open(os.path.join(VERIF, "properties.jsonl"))}
    ids = args or sorted(props)
    os.makedirs(os.path.join(VERIF, "coverage"), exist_ok=True)
    for pid in ids:
        out = tempfile.mkdtemp(prefix="cov-%s-" % pid, dir="/tmp")
        tmp = tempfile.mkdtemp(prefix="gcov-", dir="/tmp")
        try:
            env = dict(os.environ, VERIF_VARIANT_OVERRIDE="cov", VERIF_OUT=out)
            r = subprocess.run([sys.executable, os.path.join(VERIF, "vcheck.py"), pid, "--tier", tier], cwd=VERIF, env=env,
                               stdout=subprocess.PIPE, stderr=subprocess.STDOUT, text=True)
            cov = gcov_dir(os.path.join(out, "build"), tmp)
            rep = {"property": pid, "tier": tier, "check_exit": r.returncode, "ranges": []}
            tot_e = tot_x = 0
            for (f, lo, hi, name) in ranges(props[pid]):
                lines = cov.get(f, {})
                execable = [n for n in range(lo, hi + 1) if n in lines]
                hit = [n for n in execable if lines[n] > 0]
                miss = [n for n in execable if lines[n] == 0]
                tot_e += len(execable)
                tot_x += len(hit)
                rep["ranges"].append({"file": f, "lines": "%d-%d" % (lo, hi), "what": name, "executable": len(execable), "executed": len(hit), "unexecuted": miss})
            rep["anchored_executable"] = tot_e
            rep["anchored_executed"] = tot_x
            # whole anchored files, for orientation
            rep["files"] = {}
            for f in sorted(cov):
                lines = cov.get(f, {})
                if lines and f.endswith(".c"):
                    rep["files"][f] = {"executable": len(lines), "executed": sum(1 for v in lines.values() if v > 0),
                                       "unexecuted": [n for n, v in sorted(lines.items()) if v == 0]}
            json.dump(rep, open(os.path.join(VERIF, "coverage", pid + ".json"), "w"), indent=1)
            print("%s exit=%d anchored %d/%d  %s" % (pid, r.returncode, tot_x, tot_e,
                  "  ".join("%s %d/%d" % (f, rep["files"][f]["executed"], rep["files"][f]["executable"]) for f in props[pid]["anchors"]["files"] if f in rep["files"])), flush=True)
        finally:
            shutil.rmtree(out, ignore_errors=True)
            shutil.rmtree(tmp, ignore_errors=True)


if __name__ == "__main__":
    main()
