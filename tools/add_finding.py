#!/usr/bin/env python3
"""add_finding.py <property> <fixed|open> <commit|-> <signature> <what>   (maintenance aid, never run by checks)"""
import json, sys
p = "/verif/known_findings.json"
d = json.load(open(p))
prop, status, commit, sig, what = sys.argv[1:6]
e = {"property": prop, "status": status, "signature": sig, "what": what}
if status == "fixed":
    e["commit"] = commit
    e["line"] = "fixed: property=%s %s %s" % (prop, commit, what)
d["findings"] = [x for x in d["findings"] if not (x["property"] == prop and x["signature"] == sig and x.get("commit") == e.get("commit"))] + [e]
json.dump(d, open(p, "w"), indent=1)
print("ok", len(d["findings"]))
