#!/bin/sh
# try_seed.sh <Cxx> <N> [extra props]: confirm a sub-agent's seeded change (applies, builds, suite passes, demo fails with / passes without),
# then run our check(s) against it.  Uses the agent's scratch worktree /tmp/seed/<Cxx>.
id=$1; n=$2; shift 2
wt=${SEEDBASE:-/tmp/seed}/$id
sd=$wt/SEED/$n
cd $wt || exit 3
git checkout -q -- . ; make >/dev/null 2>&1
sh $sd/demo.sh $wt >/tmp/try_demo_clean.out 2>&1; clean_rc=$?
git apply $sd/patch.diff || { echo "APPLY FAILED"; exit 3; }
make >/tmp/try_make.out 2>&1 || { echo "BUILD FAILED"; git checkout -q -- .; exit 3; }
suite=$(make check 2>&1 | grep -E "^# (PASS|FAIL)" | tr '\n' ' ')
sh $sd/demo.sh $wt >/tmp/try_demo_mut.out 2>&1; mut_rc=$?
git checkout -q -- . ; make >/dev/null 2>&1
echo "$id/$n: suite[$suite] demo clean rc=$clean_rc mutant rc=$mut_rc"
cd /verif && python3 tools/mutest.py $sd/patch.diff $id "$@"
