#!/usr/bin/env python3
"""Entry point: vcheck.py <ID> --tier quick|thorough [--replay PATH]

exit 0 = property held on everything explored
exit 1 = violation (a line "VIOLATION property=<id> replay=<path>" is printed)
exit 2 = inconclusive / harness failure (never a verdict)
"""
import argparse
import importlib
import json
import os
import sys
import traceback

VERIF = os.path.dirname(os.path.abspath(__file__))
sys.path.insert(0, VERIF)
sys.path.insert(0, os.path.join(VERIF, "lib"))

import vcommon  # noqa: E402
import build  # noqa: E402


def main():
    ap = argparse.ArgumentParser()
    ap.add_argument("prop")
    ap.add_argument("--tier", default=os.environ.get("VERIF_TIER", "quick"), choices=["quick", "thorough"])
    ap.add_argument("--replay", default=None)
    ap.add_argument("--scale", type=float, default=1.0, help="multiply case counts (development aid)")
    args = ap.parse_args()
    prop = args.prop.upper()
    try:
        mod = importlib.import_module("checks." + prop.lower())
    except Exception:
        # also a syntax error in a check module: a harness failure is never a verdict
        traceback.print_exc()
        print("HARNESS FAILURE (inconclusive): cannot load the check for", prop)
        return vcommon.EXIT_INCONCLUSIVE
    chk = vcommon.Check(prop, args.tier, getattr(mod, "LEVEL", "exploration"))
    try:
        if args.replay:
            with open(args.replay) as f:
                rep = json.load(f)
            return mod.replay(chk, rep)
        mod.run(chk, args.tier, args.scale)
        rc = chk.finish()
        if rc == vcommon.EXIT_INCONCLUSIVE and not os.environ.get("VERIF_NO_RETRY"):
            # an inconclusive run (a watchdog on a loaded machine, too few events observed) is repeated once from scratch before
            # it is reported; a violation is never retried
            print("RETRY: the run was inconclusive; repeating it once")
            chk = vcommon.Check(prop, args.tier, getattr(mod, "LEVEL", "exploration"))
            chk.extra["retried_after_inconclusive"] = True
            mod.run(chk, args.tier, args.scale)
            rc = chk.finish()
        return rc
    except build.BuildError as e:
        print("BUILD FAILED (inconclusive):", str(e)[-3000:])
        return vcommon.EXIT_INCONCLUSIVE
    except Exception:
        traceback.print_exc()
        print("HARNESS FAILURE (inconclusive)")
        return vcommon.EXIT_INCONCLUSIVE


if __name__ == "__main__":
    sys.exit(main())
